/* C17 -- contracts of src/Crypto/Sha256.cpp.  Ghost tables g_H/g_M/g_S/g_W are filled by the
 * harness with the FIPS 180-4 spec functions (specs/fips180.h); see harness/sha256.cpp. */
#include "nvc.h"
struct Sha256;
struct Sha256_L { uint32 state[8]; uint64 count; byte buffer[64]; };
#define L(p) ((struct Sha256_L*)(p))
extern uint32 g_H[2][8];
extern uint32 g_S[2][65 * 8];
_Bool sha_data_match(const uint32* data, int s);
_Bool sha_state_match(const uint32* state, int s);
_Bool sha_state_is(const uint32* state, int s);
_Bool sha_block_match(const struct Sha256* p, int s);
_Bool sha_buffer_match(const struct Sha256* p, int s);
_Bool sha_is_reset(const struct Sha256* p);
_Bool sha_digest_is(const byte* d);

#define OLD_STATE_IS(st, s) \
  (__CPROVER_old((st)[0]) == g_H[s][0] && __CPROVER_old((st)[1]) == g_H[s][1] && \
   __CPROVER_old((st)[2]) == g_H[s][2] && __CPROVER_old((st)[3]) == g_H[s][3] && \
   __CPROVER_old((st)[4]) == g_H[s][4] && __CPROVER_old((st)[5]) == g_H[s][5] && \
   __CPROVER_old((st)[6]) == g_H[s][6] && __CPROVER_old((st)[7]) == g_H[s][7])

/* Transform(state, data): called on one of the expected (chaining value, block) pairs, the
 * state becomes chaining value + working variables after 64 FIPS rounds; data is only read */
void c_Transform(uint32* state, const uint32* data)
__CPROVER_requires(__CPROVER_is_fresh(state, 32) && __CPROVER_is_fresh(data, 64))
__CPROVER_requires((sha_state_match(state, 0) && sha_data_match(data, 0)) ||
                   (sha_state_match(state, 1) && sha_data_match(data, 1)))
__CPROVER_ensures((OLD_STATE_IS(state, 0) && sha_data_match(data, 0)) ==> sha_state_is(state, 0))
__CPROVER_ensures((OLD_STATE_IS(state, 1) && sha_data_match(data, 1)) ==> sha_state_is(state, 1))
__CPROVER_assigns(__CPROVER_object_upto(state, 32))
;

/* WriteByteBlock(p): p->state becomes the compression of p->state with the big-endian parsed
 * p->buffer; count and buffer are untouched */
void c_WriteByteBlock(struct Sha256* p)
__CPROVER_requires(sha_block_match(p, 0) || sha_block_match(p, 1))
__CPROVER_ensures((OLD_STATE_IS(L(p)->state, 0) && sha_buffer_match(p, 0)) ==> sha_state_is(L(p)->state, 0))
__CPROVER_ensures((OLD_STATE_IS(L(p)->state, 1) && sha_buffer_match(p, 1)) ==> sha_state_is(L(p)->state, 1))
__CPROVER_assigns(__CPROVER_object_upto(L(p)->state, 32))
;

/* frame-only contracts (safety for all inputs; used where a caller runs an unbounded number of
 * compressions and the ghost slots cannot describe them) */
void c_Transform_frame(uint32* state, const uint32* data)
__CPROVER_requires(__CPROVER_is_fresh(state, 32) && __CPROVER_is_fresh(data, 64))
__CPROVER_assigns(__CPROVER_object_upto(state, 32))
;
void c_WriteByteBlock_frame(struct Sha256* p)
__CPROVER_requires(__CPROVER_w_ok(p, sizeof(struct Sha256_L)))
__CPROVER_assigns(__CPROVER_object_upto(L(p)->state, 32))
;

/* reset(): FIPS 180-4 5.3.3 initial hash value, nothing absorbed */
void c_reset(struct Sha256* self)
__CPROVER_requires(__CPROVER_w_ok(self, sizeof(struct Sha256_L)))
__CPROVER_ensures(sha_is_reset(self))
__CPROVER_assigns(__CPROVER_object_upto(L(self)->state, 32); L(self)->count)
;

/* update(data, size), every size: bookkeeping + frame + termination (loop contract) */
_Bool sha_update_counts(const struct Sha256* p);
void c_update_any(struct Sha256* self, const byte* data, usize size)
__CPROVER_requires(__CPROVER_w_ok(self, sizeof(struct Sha256_L)) && size <= NV_MAXSZ && (size == 0 || __CPROVER_r_ok(data, size)))
__CPROVER_ensures(sha_update_counts(self))
__CPROVER_assigns(__CPROVER_object_upto((byte*)self, sizeof(struct Sha256_L)))
;

/* update(&b, 1): one FIPS absorb step (expected object computed by the harness from the spec) */
_Bool sha_object_is_expected(const struct Sha256* p);
void c_update_step(struct Sha256* self, const byte* data, usize size)
__CPROVER_requires(__CPROVER_w_ok(self, sizeof(struct Sha256_L)) && size == 1 && __CPROVER_r_ok(data, 1))
__CPROVER_ensures(sha_object_is_expected(self))
__CPROVER_assigns(__CPROVER_object_upto((byte*)self, sizeof(struct Sha256_L)))
;

/* finalize(digest): digest == big-endian chaining value after the FIPS-padded final block(s);
 * the object is reset for reuse */
void c_finalize(struct Sha256* self, byte* digest)
__CPROVER_requires(__CPROVER_w_ok(self, sizeof(struct Sha256_L)) && __CPROVER_w_ok(digest, 32))
__CPROVER_ensures(sha_digest_is(digest) && sha_is_reset(self))
__CPROVER_assigns(__CPROVER_object_upto((byte*)self, sizeof(struct Sha256_L)); __CPROVER_object_upto(digest, 32))
;

/* ---- the abstract-hash interface of a Sha256 object, used to verify hmac() modularly:
 * update(data,size) appends bytes to the object's message, finalize returns the (uninterpreted)
 * hash of that message and resets the object.  hmac_update_ok / hmac_finalize_ok state the call
 * sequence of RFC 2104 (harness/sha256.cpp); they are ASSERTED at every call site inside hmac. */
extern int g_step;
extern const struct Sha256* g_self;
_Bool hmac_update_ok(const struct Sha256* self, const byte* data, usize size);
_Bool hmac_finalize_ok(const struct Sha256* self);
_Bool hmac_digest_written(const byte* digest, int step);
void c_update_abstract(struct Sha256* self, const byte* data, usize size)
__CPROVER_requires(size == 0 || __CPROVER_r_ok(data, size))
__CPROVER_requires(hmac_update_ok(self, data, size))
__CPROVER_ensures(g_step == __CPROVER_old(g_step) + 1 && g_self == self)
__CPROVER_assigns(g_step, g_self)
;
void c_finalize_abstract(struct Sha256* self, byte* digest)
__CPROVER_requires(__CPROVER_w_ok(digest, 32))
__CPROVER_requires(hmac_finalize_ok(self))
__CPROVER_ensures(g_step == __CPROVER_old(g_step) + 1 && hmac_digest_written(digest, __CPROVER_old(g_step)))
__CPROVER_assigns(g_step; __CPROVER_object_upto(digest, 32))
;
