/* C06 / C09 -- contracts of class String (include/nstd/String.hpp, member subset R2-R4).
 * post_string(self): wf, view == reference model (length, watched byte), every other handle
 * unaffected, old heap block keeps its count when kept and loses exactly one handle otherwise;
 * the block is released (was_freed) exactly when that was the last handle. */
#include "nvc.h"
struct String;
struct StringData_L { const char* str; usize len; usize capacity; usize ref; };
struct String_L { struct StringData_L* data; struct StringData_L _data; };
#define L(p) ((struct String_L*)(p))
extern struct StringData_L* g_blk0;
extern usize g_ref0;
_Bool wf_String(const struct String*);
_Bool post_string(const struct String*);
_Bool post_other_handle(void);

/* frame of a mutator: the handle object; its heap block (whole when sole owner, otherwise only
 * the count); nothing of any other handle, of literals or of attached memory */
#define STRING_FRAME(self) \
  __CPROVER_assigns(__CPROVER_object_whole(self); \
                    g_blk0 != 0 && g_ref0 == 1: __CPROVER_object_whole(g_blk0); \
                    g_blk0 != 0 && g_ref0 != 1: g_blk0->ref) \
  __CPROVER_frees(g_blk0)
#define RELEASED_IF_LAST(self) \
  __CPROVER_ensures((g_blk0 != 0 && g_ref0 == 1 && L(self)->data != g_blk0) ==> __CPROVER_was_freed(g_blk0))

void c_String_ctor_buf(struct String* self, const char* str, usize n)
__CPROVER_requires(n <= NV_MAXSZ && (n == 0 || __CPROVER_r_ok(str, n)))
__CPROVER_ensures(post_string(self))
__CPROVER_assigns(__CPROVER_object_whole(self))
;
void c_String_ctor_cap(struct String* self, usize capacity)
__CPROVER_requires(capacity <= NV_MAXSZ)
__CPROVER_ensures(post_string(self))
__CPROVER_assigns(__CPROVER_object_whole(self))
;
void w_String_dtor(struct String* self)
__CPROVER_requires(wf_String(self))
__CPROVER_ensures(post_other_handle())
__CPROVER_ensures((g_blk0 != 0 && g_ref0 == 1) ==> __CPROVER_was_freed(g_blk0))
STRING_FRAME(self)
;
struct String* c_String_assign_op(struct String* self, const struct String* other)
__CPROVER_requires(wf_String(self) && wf_String(other))
__CPROVER_ensures(post_string(self) && __CPROVER_return_value == self)
RELEASED_IF_LAST(self)
__CPROVER_assigns(__CPROVER_object_whole(self); \
                  g_blk0 != 0 && g_ref0 == 1: __CPROVER_object_whole(g_blk0); \
                  g_blk0 != 0 && g_ref0 != 1: g_blk0->ref; \
                  L(other)->data->ref != 0: L(other)->data->ref)
__CPROVER_frees(g_blk0)
;
void c_String_clear(struct String* self)
__CPROVER_requires(wf_String(self))
__CPROVER_ensures(post_string(self))
RELEASED_IF_LAST(self)
STRING_FRAME(self)
;
void c_String_attach(struct String* self, const char* str, usize n)
__CPROVER_requires(wf_String(self) && n <= NV_MAXSZ && __CPROVER_r_ok(str, n + 1))
__CPROVER_ensures(post_string(self))
RELEASED_IF_LAST(self)
STRING_FRAME(self)
;
void c_String_resize(struct String* self, usize n)
__CPROVER_requires(wf_String(self) && n <= NV_MAXSZ)
__CPROVER_ensures(post_string(self))
RELEASED_IF_LAST(self)
STRING_FRAME(self)
;
void c_String_reserve(struct String* self, usize n)
__CPROVER_requires(wf_String(self) && n <= NV_MAXSZ)
__CPROVER_ensures(post_string(self))
RELEASED_IF_LAST(self)
STRING_FRAME(self)
;
struct String* c_String_append_buf(struct String* self, const char* str, usize n)
__CPROVER_requires(wf_String(self) && n <= NV_MAXSZ && (n == 0 || __CPROVER_r_ok(str, n)))
__CPROVER_ensures(post_string(self) && __CPROVER_return_value == self)
RELEASED_IF_LAST(self)
STRING_FRAME(self)
;
struct String* c_String_append_char(struct String* self, char c)
__CPROVER_requires(wf_String(self))
__CPROVER_ensures(post_string(self) && __CPROVER_return_value == self)
RELEASED_IF_LAST(self)
STRING_FRAME(self)
;
struct String* c_String_append_str(struct String* self, const struct String* other)
__CPROVER_requires(wf_String(self) && wf_String(other))
__CPROVER_ensures(post_string(self) && __CPROVER_return_value == self)
RELEASED_IF_LAST(self)
STRING_FRAME(self)
;
struct String* c_String_prepend_buf(struct String* self, const char* str, usize n)
__CPROVER_requires(wf_String(self) && n <= NV_MAXSZ && (n == 0 || __CPROVER_r_ok(str, n)))
__CPROVER_ensures(post_string(self) && __CPROVER_return_value == self)
RELEASED_IF_LAST(self)
STRING_FRAME(self)
;
struct String* c_String_prepend_str(struct String* self, const struct String* other)
__CPROVER_requires(wf_String(self) && wf_String(other))
__CPROVER_ensures(post_string(self) && __CPROVER_return_value == self)
RELEASED_IF_LAST(self)
STRING_FRAME(self)
;
_Bool str_find_post(const struct String* a, char c, const char* ret);
_Bool str_findLast_post(const struct String* a, char c, const char* ret);
const char* c_String_find_char(const struct String* self, char c)
__CPROVER_requires(wf_String(self))
__CPROVER_ensures(str_find_post(self, c, __CPROVER_return_value))
__CPROVER_assigns()
;
const char* c_String_findLast_char(const struct String* self, char c)
__CPROVER_requires(wf_String(self))
__CPROVER_ensures(str_findLast_post(self, c, __CPROVER_return_value))
__CPROVER_assigns()
;
_Bool str_compare_post(const struct String* a, const struct String* o, int r);
int c_String_compare_str(const struct String* self, const struct String* other)
__CPROVER_requires(wf_String(self) && wf_String(other) && self != other)
__CPROVER_ensures(str_compare_post(self, other, __CPROVER_return_value))
__CPROVER_assigns(__CPROVER_object_whole(self); __CPROVER_object_whole(other))
;
_Bool post_replace(const struct String* a);
struct String* c_String_replace_char(struct String* self, char needle, char replacement)
__CPROVER_requires(wf_String(self))
__CPROVER_ensures(post_replace(self) && __CPROVER_return_value == self)
RELEASED_IF_LAST(self)
STRING_FRAME(self)
;
void c_String_ctor_fill(struct String* self, usize length, char c)
__CPROVER_requires(length <= NV_MAXSZ)
__CPROVER_ensures(post_string(self))
__CPROVER_assigns(__CPROVER_object_whole(self))
;
