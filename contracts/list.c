/* C03 / C04 / C05 -- step contracts of List<T> (include/nstd/List.hpp) on one-call extern "C"
 * wrappers (List<Tr> has no C spelling).  Frames name exactly the link fields that may change:
 * the payload of every existing element and every other node are outside the frame, which is the
 * address-stability clause of C05. */
#include "nvc.h"
struct Item_L { long value; struct Item_L* prev; struct Item_L* next; };
struct List_L { struct Item_L* _end; struct Item_L* _begin; usize _size; struct Item_L endItem; struct Item_L* freeItem; void* blocks; };
#define LL(p) ((struct List_L*)(p))
#define IT(p) ((struct Item_L*)(p))
/* untyped copies of the harness' ghost node pointers (List<Tr>::Item has no C spelling) */
extern void* gv_Q;
extern void* gv_N;
extern void* gv_a_last;
extern void* gv_b_last;
extern int g_ctor, g_dtor;
extern const void* g_last_ctor;
extern const void* g_last_dtor;
_Bool list_insert_post(void* ret);
_Bool list_remove_post(void* ret);
_Bool list_swap_post(void);

void* w_List_insert(void* l, void* posItem, const int* value)
__CPROVER_requires(__CPROVER_r_ok(value, sizeof(int)))
__CPROVER_ensures(list_insert_post(__CPROVER_return_value))
__CPROVER_assigns(__CPROVER_object_whole(l); IT(posItem)->prev;
                  LL(l)->freeItem != 0: __CPROVER_object_whole(LL(l)->freeItem);
                  gv_Q != 0: IT(gv_Q)->next;
                  g_ctor, g_dtor, g_last_ctor, g_last_dtor)
;
void* w_List_remove(void* l, void* item)
__CPROVER_ensures(list_remove_post(__CPROVER_return_value))
__CPROVER_assigns(__CPROVER_object_whole(l); __CPROVER_object_whole(item); IT(gv_N)->prev;
                  gv_Q != 0: IT(gv_Q)->next;
                  g_ctor, g_dtor, g_last_ctor, g_last_dtor)
;
void w_List_swap(void* a, void* b)
__CPROVER_ensures(list_swap_post())
__CPROVER_assigns(__CPROVER_object_whole(a); __CPROVER_object_whole(b);
                  gv_a_last != 0: IT(gv_a_last)->next; gv_b_last != 0: IT(gv_b_last)->next)
;
void* w_List_removeFront(void* l)
__CPROVER_ensures(list_remove_post(__CPROVER_return_value))
__CPROVER_assigns(__CPROVER_object_whole(l); __CPROVER_object_whole(LL(l)->_begin); IT(gv_N)->prev;
                  g_ctor, g_dtor, g_last_ctor, g_last_dtor)
;
void* w_List_removeBack(void* l)
__CPROVER_ensures(list_remove_post(__CPROVER_return_value))
__CPROVER_assigns(__CPROVER_object_whole(l); __CPROVER_object_whole(LL(l)->endItem.prev);
                  gv_Q != 0: IT(gv_Q)->next;
                  g_ctor, g_dtor, g_last_ctor, g_last_dtor)
;
