/* C18 -- contracts of include/nstd/Unicode.hpp */
#include "nvc.h"
struct String;
extern byte g_out[8];
extern usize g_outn;
_Bool uni_append_post(uint32 cp, _Bool ret);
_Bool uni_from_post(const char* ch, usize len, uint32 ret);

/* append(cp, str): appends exactly the RFC 3629 byte sequence of cp (String::append(char) is
 * replaced by a byte-logging contract), returns false and appends nothing above U+10FFFF */
_Bool c_Unicode_append(uint32 ch, struct String* str)
__CPROVER_requires(g_outn == 0)
__CPROVER_ensures(uni_append_post(ch, __CPROVER_return_value))
__CPROVER_ensures((unsigned char)__CPROVER_return_value <= 1) /* discharges the canonical-bool clause r_Unicode_append_one relies on */
__CPROVER_assigns(__CPROVER_object_whole(g_out); g_outn)
;
/* fromString(ch, len): reads inside ch[0..len) only (pointer obligations + empty frame); the
 * value on the spec's own encodings is the inverse-law unit */
uint32 c_Unicode_fromString(const char* ch, usize len)
__CPROVER_requires(len <= NV_MAXSZ && (len == 0 || __CPROVER_r_ok(ch, len)))
__CPROVER_ensures(uni_from_post(ch, len, __CPROVER_return_value))
__CPROVER_assigns()
;
/* isValid(ch, len): reads inside ch[0..len) only, terminates (loop contract), result agrees with
 * the structural check of RFC 3629 lead/continuation bytes at the ghost position */
_Bool uni_valid_post(const char* ch, usize len, _Bool ret);
_Bool c_Unicode_isValid(const char* ch, usize len)
__CPROVER_requires(len <= NV_MAXSZ && (len == 0 || __CPROVER_r_ok(ch, len)))
__CPROVER_ensures(uni_valid_post(ch, len, __CPROVER_return_value))
__CPROVER_assigns()
;
/* length(c): classification of a lead byte */
usize c_Unicode_length(char c)
__CPROVER_ensures(__CPROVER_return_value <= 4)
__CPROVER_assigns()
;

/* append(const uint32*, size, String&): the per-element append is replaced by a counting contract
 * (its own behaviour is unit Unicode.append) */
extern usize g_app_calls; extern _Bool g_app_all;
_Bool r_Unicode_append_one(uint32 ch, struct String* str)
__CPROVER_assigns(g_app_calls, g_app_all)
__CPROVER_ensures(g_app_calls == __CPROVER_old(g_app_calls) + 1 && g_app_all == (__CPROVER_old(g_app_all) && __CPROVER_return_value))
/* a C++ bool return is 0 or 1; CBMC's havocked c_bool may carry other bit patterns, which `result &= ...` would expose */
__CPROVER_ensures((unsigned char)__CPROVER_return_value <= 1)
;
_Bool uni_append_arr_post(_Bool ret);
_Bool c_Unicode_append_arr(const uint32* data, usize size, struct String* str)
__CPROVER_requires(size <= NV_MAXSZ / 4 && (size == 0 || __CPROVER_r_ok(data, size * 4)))
__CPROVER_ensures(uni_append_arr_post(__CPROVER_return_value))
__CPROVER_assigns(g_app_calls, g_app_all)
;
