/* C18 -- contracts of include/nstd/Unicode.hpp */
#include "nvc.h"
struct String;
extern byte g_out[8];
extern usize g_outn;
_Bool uni_append_post(uint32 cp, _Bool ret);
_Bool uni_from_post(const char* ch, usize len, uint32 ret);

/* append(cp, str): appends exactly the RFC 3629 byte sequence of cp (String::append(char) is
 * replaced by a byte-logging contract), returns false and appends nothing above U+10FFFF */
_Bool c_Unicode_append(uint32 ch, struct String* str)
__CPROVER_requires(g_outn == 0)
__CPROVER_ensures(uni_append_post(ch, __CPROVER_return_value))
__CPROVER_assigns(__CPROVER_object_whole(g_out); g_outn)
;
/* fromString(ch, len): reads inside ch[0..len) only (pointer obligations + empty frame); the
 * value on the spec's own encodings is the inverse-law unit */
uint32 c_Unicode_fromString(const char* ch, usize len)
__CPROVER_requires(len <= NV_MAXSZ && (len == 0 || __CPROVER_r_ok(ch, len)))
__CPROVER_ensures(uni_from_post(ch, len, __CPROVER_return_value))
__CPROVER_assigns()
;
/* isValid(ch, len): reads inside ch[0..len) only, terminates (loop contract), result agrees with
 * the structural check of RFC 3629 lead/continuation bytes at the ghost position */
_Bool uni_valid_post(const char* ch, usize len, _Bool ret);
_Bool c_Unicode_isValid(const char* ch, usize len)
__CPROVER_requires(len <= NV_MAXSZ && (len == 0 || __CPROVER_r_ok(ch, len)))
__CPROVER_ensures(uni_valid_post(ch, len, __CPROVER_return_value))
__CPROVER_assigns()
;
/* length(c): classification of a lead byte */
usize c_Unicode_length(char c)
__CPROVER_ensures(__CPROVER_return_value <= 4)
__CPROVER_assigns()
;
