/* Interface contracts of the String members that the codec functions call on their RESULT
 * object (C18).  The result's storage is represented by a ghost buffer g_sbuf of capacity
 * g_scap holding g_slen bytes; these contracts are what C06 states about resize / reserve /
 * the mutable conversion ("a writable buffer of capacity+1 bytes"), restricted to a fresh
 * result object.  They are ASSUMED here (replace-call-with-contract). */
#include "nvc.h"
struct String;
extern byte* g_sbuf;
extern usize g_scap, g_slen;
extern byte g_out[8];
extern usize g_outn;

void c_String_reserve_iface(struct String* self, usize n)
__CPROVER_requires(n <= NV_MAXSZ && g_sbuf == 0)
__CPROVER_assigns(g_sbuf, g_scap, g_slen)
__CPROVER_ensures(__CPROVER_is_fresh(g_sbuf, n + 1) && g_scap == n && g_slen == 0)
;
void c_String_resize_iface(struct String* self, usize n)
__CPROVER_requires(n <= NV_MAXSZ && (g_sbuf == 0 || n <= g_scap))
__CPROVER_assigns(g_sbuf, g_scap, g_slen)
__CPROVER_ensures(g_slen == n)
__CPROVER_ensures(__CPROVER_old(g_sbuf) == 0 ==> (__CPROVER_is_fresh(g_sbuf, n + 1) && g_scap == n))
__CPROVER_ensures(__CPROVER_old(g_sbuf) != 0 ==> (g_sbuf == __CPROVER_old(g_sbuf) && g_scap == __CPROVER_old(g_scap)))
;
char* c_String_nvMutable_iface(struct String* self)
__CPROVER_requires(g_sbuf != 0)
__CPROVER_assigns()
__CPROVER_ensures(__CPROVER_return_value == (char*)g_sbuf)
;
/* String::append(char) as a byte log (Unicode::append) */
struct String* c_String_append_char_log(struct String* self, char c)
__CPROVER_requires(g_outn < 8)
__CPROVER_assigns(g_out[g_outn], g_outn)
__CPROVER_ensures(g_outn == __CPROVER_old(g_outn) + 1 && g_out[__CPROVER_old(g_outn)] == (byte)c && __CPROVER_return_value == self)
;
