/* C20 (option parsing) -- contracts of the static C-string scanners of String and of
 * Process::Arguments::read.  "s is a C string" = s is readable and its OBJECT ends with a NUL byte,
 * so every scan that stops at the first NUL stays inside the object. */
#include "nvc.h"
struct String;
#define CSTR(p) (__CPROVER_r_ok(p, 1) && ((const char*)(p))[__CPROVER_OBJECT_SIZE(p) - NV_OFF(p) - 1] == 0)
#define ROOM(p) (__CPROVER_OBJECT_SIZE(p) - NV_OFF(p) - 1) /* bytes before the object's final NUL */
extern const char* g_att_ptr; extern usize g_att_len; extern int g_att_calls, g_clear_calls, g_app_calls;
_Bool len_post(const char* s, usize r);
_Bool find_post(const char* in, char c, const char* r);
_Bool cmp_post(const char* s1, usize len, int r);

/* enforced on the real functions (loop contracts in contracts/args_*.loops.json) */
usize c_String_length(const char* s)
__CPROVER_requires(CSTR(s))
__CPROVER_ensures(len_post(s, __CPROVER_return_value))
__CPROVER_assigns()
;
const char* c_String_find(const char* in, char c)
__CPROVER_requires(CSTR(in))
__CPROVER_ensures(find_post(in, c, __CPROVER_return_value))
__CPROVER_assigns()
;
int c_String_compare_n(const char* s1, const char* s2, usize len)
__CPROVER_requires(CSTR(s1) && CSTR(s2))
__CPROVER_ensures(cmp_post(s1, len, __CPROVER_return_value))
__CPROVER_assigns()
;

/* the same statements without harness ghosts, as used when the scanners are REPLACED inside
 * Arguments::read (each clause is implied by the enforced contract above) */
/* "first terminator", instantiated for the first 9 positions (enough for callers that compare against
 * option names of at most 8 characters); each conjunct is an instance of the enforced contract */
#define NONUL(s, r, i) ((i) >= (r) || (s)[i] != 0)
#define NONUL9(s, r) (NONUL(s, r, 0) && NONUL(s, r, 1) && NONUL(s, r, 2) && NONUL(s, r, 3) && NONUL(s, r, 4) && \
                      NONUL(s, r, 5) && NONUL(s, r, 6) && NONUL(s, r, 7) && NONUL(s, r, 8))
usize r_String_length(const char* s)
__CPROVER_requires(CSTR(s))
__CPROVER_ensures(__CPROVER_return_value <= ROOM(s) && s[__CPROVER_return_value] == 0 && NONUL9(s, __CPROVER_return_value))
__CPROVER_assigns()
;
const char* r_String_find(const char* in, char c)
__CPROVER_requires(CSTR(in))
__CPROVER_ensures(__CPROVER_return_value == 0 ||
  (__CPROVER_same_object(__CPROVER_return_value, in) && __CPROVER_return_value >= in &&
   (usize)(__CPROVER_return_value - in) <= ROOM(in) && *__CPROVER_return_value == c &&
   NONUL9(in, (usize)(__CPROVER_return_value - in))))
__CPROVER_assigns()
;
int r_String_compare_n(const char* s1, const char* s2, usize len)
__CPROVER_requires(CSTR(s1) && CSTR(s2))
__CPROVER_ensures(__CPROVER_return_value != 0 || len <= ROOM(s1))
__CPROVER_assigns()
;
/* output String: attach must be given a readable range (the obligation "attached ranges lie inside
 * one argument string"); clear / append(char) are logged */
void r_String_attach(struct String* self, const char* str, usize len)
__CPROVER_requires(len == 0 || __CPROVER_r_ok(str, len))
__CPROVER_assigns(g_att_ptr, g_att_len, g_att_calls)
__CPROVER_ensures(g_att_ptr == str && g_att_len == len && g_att_calls == __CPROVER_old(g_att_calls) + 1)
;
void r_String_clear(struct String* self)
__CPROVER_assigns(g_clear_calls)
__CPROVER_ensures(g_clear_calls == __CPROVER_old(g_clear_calls) + 1)
;
struct String* r_String_append_char(struct String* self, char c)
__CPROVER_assigns(g_app_calls)
__CPROVER_ensures(g_app_calls == __CPROVER_old(g_app_calls) + 1 && __CPROVER_return_value == self)
;

_Bool wf_args(const void* a);
_Bool args_post(void* a, _Bool r);
_Bool w_args_read(void* a, int* character, struct String* argument)
__CPROVER_requires(wf_args(a) && __CPROVER_w_ok(character, sizeof(int)))
__CPROVER_ensures(args_post(a, __CPROVER_return_value))
__CPROVER_assigns(__CPROVER_object_whole(a); *character; g_att_ptr, g_att_len, g_att_calls, g_clear_calls, g_app_calls)
;
