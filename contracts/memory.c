/* Assumed contracts of the dependency layer Memory::copy/move/compare/fill/zero
 * (src/Memory.cpp: one-line wrappers around libc memcpy/memmove/memcmp/memset, which have no
 * body within reach).  Callers are verified against these contracts
 * (--replace-call-with-contract): the preconditions become obligations at every call site
 * ("never reads or writes outside"), the frame is dest[0..n), and the content clause speaks
 * about ONE watched byte offset g_woff chosen nondeterministically by the harness -- which is
 * a universally quantified statement over all offsets, decidable on the SAT back end. */
#include "nvc.h"

/* index of the watched byte relative to dest, masked to 0 when outside [0,n) so that the read inside
 * __CPROVER_old is always in bounds (history of ?: expressions / calls is unsupported) */
#define NV_WIDX(dest, n) ((g_woff - NV_OFF(dest)) & ((usize)0 - (usize)(g_woff - NV_OFF(dest) < (n))))
/* a second, independent watched offset: lets a caller follow a byte that is copied twice */
#define NV_HIT2(dest, n) (g_woff2 >= NV_OFF(dest) && g_woff2 - NV_OFF(dest) < (n))
#define NV_WIDX2(dest, n) ((g_woff2 - NV_OFF(dest)) & ((usize)0 - (usize)(g_woff2 - NV_OFF(dest) < (n))))

void c_Memory_copy(void* dest, const void* src, usize n)
__CPROVER_requires(n == 0 || (__CPROVER_r_ok(src, n) && __CPROVER_w_ok(dest, n)))
__CPROVER_requires(n == 0 || !__CPROVER_same_object(dest, src) ||
                   NV_OFF(dest) + n <= NV_OFF(src) || NV_OFF(src) + n <= NV_OFF(dest))
__CPROVER_assigns(n != 0: __CPROVER_object_upto(dest, n))
__CPROVER_ensures(NV_HIT(dest, n) ==>
  ((const byte*)dest)[g_woff - NV_OFF(dest)] ==
    __CPROVER_old(((const byte*)src)[NV_WIDX(dest, n)]))
__CPROVER_ensures(NV_HIT2(dest, n) ==>
  ((const byte*)dest)[g_woff2 - NV_OFF(dest)] ==
    __CPROVER_old(((const byte*)src)[NV_WIDX2(dest, n)]))
;

void c_Memory_move(void* dest, const void* src, usize n)
__CPROVER_requires(n == 0 || (__CPROVER_r_ok(src, n) && __CPROVER_w_ok(dest, n)))
__CPROVER_assigns(n != 0: __CPROVER_object_upto(dest, n))
__CPROVER_ensures(NV_HIT(dest, n) ==>
  ((const byte*)dest)[g_woff - NV_OFF(dest)] ==
    __CPROVER_old(((const byte*)src)[NV_WIDX(dest, n)]))
__CPROVER_ensures(NV_HIT2(dest, n) ==>
  ((const byte*)dest)[g_woff2 - NV_OFF(dest)] ==
    __CPROVER_old(((const byte*)src)[NV_WIDX2(dest, n)]))
;

/* memcmp: result 0 => the bytes at the (universally quantified) ghost index agree;
 * result != 0 => a witness index g_cmp_wit < n exists where they differ. */
extern usize g_cmp_k;
int c_Memory_compare(const void* p1, const void* p2, usize n)
__CPROVER_requires(n == 0 || (__CPROVER_r_ok(p1, n) && __CPROVER_r_ok(p2, n)))
__CPROVER_assigns(g_cmp_wit)
__CPROVER_ensures(__CPROVER_return_value == 0 ==>
  (g_cmp_k < n ==> ((const byte*)p1)[g_cmp_k] == ((const byte*)p2)[g_cmp_k]))
__CPROVER_ensures(__CPROVER_return_value != 0 ==>
  (g_cmp_wit < n && ((const byte*)p1)[g_cmp_wit] != ((const byte*)p2)[g_cmp_wit]))
;
