/* C09 -- contracts of RefCount::Ptr<C> (include/nstd/RefCount.hpp).  ptr_post() compares the
 * handles and the payload counters with the ghost ledger computed by the harness from the
 * property statement (count == number of handles; released exactly when it reaches 0). */
#include "nvc.h"
struct Node;
/* RefCount::Ptr<Node> has no C spelling (nested class template): the contracts sit on extern "C"
 * wrappers with void* parameters defined in harness/refcount.cpp, each of which consists of the
 * one call of the real member function. */
struct Ptr_L { void* refObj; void* obj; };
#define L(p) ((struct Ptr_L*)(p))
extern struct Node* g_A;
extern struct Node* g_B;
extern _Bool g_e_freedA, g_e_freedB;
_Bool wf_Ptr(const void*);
_Bool ptr_post(void);

#define PAYLOAD_FRAME \
  __CPROVER_assigns(__CPROVER_object_whole(self); g_A != 0: __CPROVER_object_whole(g_A); g_B != 0: __CPROVER_object_whole(g_B)) \
  __CPROVER_frees(g_A, g_B)
#define RELEASES \
  __CPROVER_ensures(g_e_freedA ==> __CPROVER_was_freed(g_A)) \
  __CPROVER_ensures(g_e_freedB ==> __CPROVER_was_freed(g_B))

void w_Ptr_dtor(void* self)
__CPROVER_requires(wf_Ptr(self))
__CPROVER_ensures(ptr_post())
RELEASES
__CPROVER_assigns(__CPROVER_object_whole(self); g_A != 0: __CPROVER_object_whole(g_A); g_B != 0: __CPROVER_object_whole(g_B))
__CPROVER_frees(g_A, g_B)
;
void* w_Ptr_assign(void* self, const void* other)
__CPROVER_requires(wf_Ptr(self) && wf_Ptr(other))
__CPROVER_ensures(ptr_post() && __CPROVER_return_value == self)
RELEASES
PAYLOAD_FRAME
;
void* w_Ptr_assign_raw(void* self, struct Node* obj)
__CPROVER_requires(wf_Ptr(self))
__CPROVER_ensures(ptr_post() && __CPROVER_return_value == self)
RELEASES
PAYLOAD_FRAME
;
void w_Ptr_swap(void* self, void* other)
__CPROVER_requires(wf_Ptr(self) && wf_Ptr(other))
__CPROVER_ensures(ptr_post())
__CPROVER_assigns(__CPROVER_object_whole(self); __CPROVER_object_whole(other))
;
