/* C13 -- the operating system as a contract, and the contracts of the client write path.
 * Socket::send(data, size) may accept any prefix, fail (-1 with an error), or would-block (-1
 * with error 0); accepted bytes are appended to the ghost OS log (length g_os_len; the byte at
 * the universally quantified stream position g_pos is remembered in g_os_byte). */
#include "nvc.h"
struct Socket;
extern usize g_os_len, g_pos;
extern _Bool g_os_has;
extern byte g_os_byte;
extern int g_send_calls;
extern long g_send_ret;
extern int g_poll_sets, g_poll_removes, g_onWrite, g_onClosed, g_onRead;
extern unsigned g_poll_flags;
extern const void* g_poll_sock;
extern const void* g_closing;
extern void* gv_client;
extern void* gv_buf;
#define OLD_LEN __CPROVER_old(g_os_len)
#define HIT(ret) ((ret) > 0 && g_pos >= OLD_LEN && g_pos - OLD_LEN < (usize)(ret))
#define IDX(size) ((g_pos - g_os_len_before) & ((usize)0 - (usize)(g_pos - g_os_len_before < (size))))

ssize c_Socket_send(struct Socket* self, const byte* data, usize size)
__CPROVER_requires(size == 0 || __CPROVER_r_ok(data, size))
__CPROVER_assigns(g_os_len, g_os_has, g_os_byte, g_send_calls, g_send_ret)
__CPROVER_ensures(__CPROVER_return_value == -1 || (__CPROVER_return_value >= 0 && (usize)__CPROVER_return_value <= size))
__CPROVER_ensures(g_os_len == OLD_LEN + (__CPROVER_return_value > 0 ? (usize)__CPROVER_return_value : 0))
__CPROVER_ensures(g_send_calls == __CPROVER_old(g_send_calls) + 1 && g_send_ret == __CPROVER_return_value)
__CPROVER_ensures(HIT(__CPROVER_return_value) ==> (g_os_has && g_os_byte == data[(g_pos - OLD_LEN) & ((usize)0 - (usize)(g_pos - OLD_LEN < size))]))
__CPROVER_ensures(!HIT(__CPROVER_return_value) ==> (g_os_has == __CPROVER_old(g_os_has) && g_os_byte == __CPROVER_old(g_os_byte)))
;
extern int g_last_error;
int c_Socket_getLastError(void)
__CPROVER_requires(1) /* any value: errno after a failed call is the OS's choice (recorded for the read unit) */
__CPROVER_assigns(g_last_error)
__CPROVER_ensures(g_last_error == __CPROVER_return_value)
;

extern long g_recv_ret; extern int g_recv_calls;
/* Socket::recv(data, maxSize, minSize): -1, 0 (closed) or 1..maxSize bytes written to data */
ssize c_Socket_recv(struct Socket* self, byte* data, usize maxSize, usize minSize)
__CPROVER_requires(maxSize == 0 || __CPROVER_w_ok(data, maxSize))
__CPROVER_assigns(maxSize != 0: __CPROVER_object_upto(data, maxSize); g_recv_ret, g_recv_calls)
__CPROVER_ensures(__CPROVER_return_value >= -1 && (__CPROVER_return_value <= 0 || (usize)__CPROVER_return_value <= maxSize))
__CPROVER_ensures(g_recv_ret == __CPROVER_return_value && g_recv_calls == __CPROVER_old(g_recv_calls) + 1)
;

_Bool post_write(_Bool ret);
_Bool post_write_ready(void);
_Bool post_suspend_resume(_Bool target);
#define GHOSTS g_last_error, g_os_len, g_os_has, g_os_byte, g_send_calls, g_send_ret, g_poll_sets, g_poll_removes, g_poll_flags, g_poll_sock, g_closing, g_onWrite, g_onClosed, g_onRead

_Bool w_client_write(void* c, const byte* data, usize size, usize* postponed)
__CPROVER_requires(size <= NV_MAXSZ && (size == 0 || __CPROVER_r_ok(data, size)) && __CPROVER_w_ok(postponed, sizeof(usize)))
__CPROVER_ensures(post_write(__CPROVER_return_value))
__CPROVER_assigns(__CPROVER_object_whole(c); gv_buf != 0: __CPROVER_object_whole(gv_buf); *postponed; GHOSTS)
__CPROVER_frees(gv_buf)
;
void w_write_ready(void* p, void* c)
__CPROVER_ensures(post_write_ready())
__CPROVER_assigns(__CPROVER_object_whole(c); gv_buf != 0: __CPROVER_object_whole(gv_buf); GHOSTS)
__CPROVER_frees(gv_buf)
;
_Bool post_read(_Bool ret);
_Bool w_client_read(void* c, byte* buffer, usize maxSize, usize* size)
__CPROVER_requires(maxSize <= NV_MAXSZ && (maxSize == 0 || __CPROVER_w_ok(buffer, maxSize)) && __CPROVER_w_ok(size, sizeof(usize)))
__CPROVER_ensures(post_read(__CPROVER_return_value))
__CPROVER_assigns(__CPROVER_object_whole(c); maxSize != 0: __CPROVER_object_upto(buffer, maxSize); *size; g_recv_ret, g_recv_calls, GHOSTS)
;
void w_client_suspend(void* c)
__CPROVER_ensures(post_suspend_resume(1))
__CPROVER_assigns(__CPROVER_object_whole(c); GHOSTS)
;
void w_client_resume(void* c)
__CPROVER_ensures(post_suspend_resume(0))
__CPROVER_assigns(__CPROVER_object_whole(c); GHOSTS)
;
