/* C03 / C05 -- step contracts of PoolList<T> (include/nstd/PoolList.hpp) on one-call extern "C"
 * wrappers.  Frames name exactly the link fields that may change and the one node whose element
 * is constructed / destroyed: every other node and every other element are outside the frame,
 * which is the address-stability / never-copied clause of C05. */
#include "nvc.h"
struct PItem_L { struct PItem_L* prev; struct PItem_L* next; long value; };
struct PList_L { struct PItem_L* _end; struct PItem_L* _begin; usize _size; struct { struct PItem_L* prev; struct PItem_L* next; } endItem; struct PItem_L* freeItem; void* blocks; };
#define PL(p) ((struct PList_L*)(p))
#define PI(p) ((struct PItem_L*)(p))
extern void* gv_Q; extern void* gv_N; extern void* gv_I; extern void* gv_a_last; extern void* gv_b_last;
extern int g_ctor, g_dtor;
extern const void* g_last_ctor;
extern const void* g_last_dtor;
_Bool pl_append_post(void* ret);
_Bool pl_remove_post(void* ret);
_Bool pl_swap_post(void);

void* w_PL_append(void* l, const long* value)
__CPROVER_requires(__CPROVER_r_ok(value, sizeof(long)))
__CPROVER_ensures(pl_append_post(__CPROVER_return_value))
__CPROVER_assigns(__CPROVER_object_whole(l);
                  PL(l)->freeItem != 0: __CPROVER_object_whole(PL(l)->freeItem);
                  gv_Q != 0: PI(gv_Q)->next;
                  g_ctor, g_dtor, g_last_ctor, g_last_dtor)
;
void* w_PL_remove(void* l, void* item)
__CPROVER_ensures(pl_remove_post(__CPROVER_return_value))
__CPROVER_assigns(__CPROVER_object_whole(l); __CPROVER_object_whole(item); PI(gv_N)->prev;
                  gv_Q != 0: PI(gv_Q)->next;
                  g_ctor, g_dtor, g_last_ctor, g_last_dtor)
;
void w_PL_removeValue(void* l, void* elem)
__CPROVER_ensures(pl_remove_post(gv_N))
__CPROVER_assigns(__CPROVER_object_whole(l); __CPROVER_object_whole(gv_I); PI(gv_N)->prev;
                  gv_Q != 0: PI(gv_Q)->next;
                  g_ctor, g_dtor, g_last_ctor, g_last_dtor)
;
void* w_PL_removeFront(void* l)
__CPROVER_ensures(pl_remove_post(__CPROVER_return_value))
__CPROVER_assigns(__CPROVER_object_whole(l); __CPROVER_object_whole(PL(l)->_begin); PI(gv_N)->prev;
                  g_ctor, g_dtor, g_last_ctor, g_last_dtor)
;
void* w_PL_removeBack(void* l)
__CPROVER_ensures(pl_remove_post(__CPROVER_return_value))
__CPROVER_assigns(__CPROVER_object_whole(l); __CPROVER_object_whole(PL(l)->endItem.prev);
                  gv_Q != 0: PI(gv_Q)->next;
                  g_ctor, g_dtor, g_last_ctor, g_last_dtor)
;
void w_PL_swap(void* a, void* b)
__CPROVER_ensures(pl_swap_post())
__CPROVER_assigns(__CPROVER_object_whole(a); __CPROVER_object_whole(b);
                  gv_a_last != 0: PI(gv_a_last)->next; gv_b_last != 0: PI(gv_b_last)->next)
;
/* clear (bounded unit: <= 2 elements) */
extern void* gv_i1; extern void* gv_i2;
_Bool pl_clear_post(void);
void w_PL_clear(void* l)
__CPROVER_ensures(pl_clear_post())
__CPROVER_assigns(__CPROVER_object_whole(l);
                  gv_i1 != 0: __CPROVER_object_whole(gv_i1); gv_i2 != 0: __CPROVER_object_whole(gv_i2);
                  g_ctor, g_dtor, g_last_ctor, g_last_dtor)
;
