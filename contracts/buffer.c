/* C08 -- contracts of class Buffer (include/nstd/Buffer.hpp), attached by name to the C++
 * methods with goto-instrument --enforce-contract 'Buffer::m(...)/c_Buffer_m'.
 * Predicates (wf_Buffer, post_view, ...) are defined over the real private fields in
 * harness/buffer.cpp.  Top-level postconditions are the reference byte-queue model of the
 * property statement (the model values g_exp_* are computed by the harness from the pre-state
 * and the arguments before the call); frames list what a Buffer may touch: itself, its own
 * allocation, and (attached state) the attached range. */
#include "nvc.h"
struct Buffer;
struct Buffer_L { byte* buffer; byte* bufferStart; byte* bufferEnd; usize _capacity; };
#define L(p) ((struct Buffer_L*)(p))
#define ATT_LEN(p) ((usize)(L(p)->bufferEnd - L(p)->bufferStart))
#define IS_ATT(p) (L(p)->buffer == 0 && L(p)->bufferStart != (byte*)&L(p)->_capacity)

_Bool wf_Buffer(const struct Buffer*);
_Bool post_view(const struct Buffer*);
_Bool post_view_other(const struct Buffer*);
_Bool post_swap(const struct Buffer*, const struct Buffer*);
_Bool post_attach(const struct Buffer*, const byte*, usize);
_Bool post_eq(const struct Buffer*, const struct Buffer*, _Bool);
_Bool post_ne(const struct Buffer*, const struct Buffer*, _Bool);

/* frame shared by all mutators: the object, its own allocation, the attached range */
#define BUFFER_FRAME(self) \
  __CPROVER_assigns(__CPROVER_object_whole(self); \
                    L(self)->buffer != 0: __CPROVER_object_whole(L(self)->buffer); \
                    IS_ATT(self) && ATT_LEN(self) != 0: __CPROVER_object_upto(L(self)->bufferStart, ATT_LEN(self))) \
  __CPROVER_frees(L(self)->buffer)

/* ---- construction / destruction */
void c_Buffer_ctor_default(struct Buffer* self)
__CPROVER_ensures(post_view(self))
__CPROVER_assigns(__CPROVER_object_whole(self))
;
void c_Buffer_ctor_cap(struct Buffer* self, usize capacity)
__CPROVER_requires(capacity <= NV_MAXSZ)
__CPROVER_ensures(post_view(self) && L(self)->_capacity == capacity)
__CPROVER_assigns(__CPROVER_object_whole(self))
;
void c_Buffer_ctor_data(struct Buffer* self, const byte* data, usize n)
__CPROVER_requires(n <= NV_MAXSZ && (n == 0 || __CPROVER_r_ok(data, n)))
__CPROVER_ensures(post_view(self))
__CPROVER_assigns(__CPROVER_object_whole(self))
;
void c_Buffer_ctor_copy(struct Buffer* self, const struct Buffer* other)
__CPROVER_requires(wf_Buffer(other))
__CPROVER_ensures(post_view(self) && post_view_other(other))
__CPROVER_assigns(__CPROVER_object_whole(self))
;
void c_Buffer_dtor(struct Buffer* self)
__CPROVER_requires(wf_Buffer(self))
__CPROVER_ensures(__CPROVER_old(L(self)->buffer) == 0 || __CPROVER_was_freed(__CPROVER_old(L(self)->buffer)))
__CPROVER_assigns(__CPROVER_object_whole(self))
__CPROVER_frees(L(self)->buffer)
;

/* ---- attach */
void c_Buffer_attach(struct Buffer* self, byte* data, usize len)
__CPROVER_requires(wf_Buffer(self) && len <= NV_MAXSZ && (len == 0 || __CPROVER_r_ok(data, len)))
__CPROVER_ensures(post_attach(self, data, len))
__CPROVER_ensures(__CPROVER_old(L(self)->buffer) == 0 || __CPROVER_was_freed(__CPROVER_old(L(self)->buffer)))
__CPROVER_assigns(__CPROVER_object_whole(self))
__CPROVER_frees(L(self)->buffer)
;

/* ---- assignment */
struct Buffer* c_Buffer_assign_op(struct Buffer* self, const struct Buffer* other)
__CPROVER_requires(wf_Buffer(self) && wf_Buffer(other))
__CPROVER_ensures(post_view(self) && __CPROVER_return_value == self)
BUFFER_FRAME(self)
;
void c_Buffer_assign(struct Buffer* self, const byte* data, usize n)
__CPROVER_requires(wf_Buffer(self) && n <= NV_MAXSZ && (n == 0 || __CPROVER_r_ok(data, n)))
__CPROVER_ensures(post_view(self))
BUFFER_FRAME(self)
;

/* ---- comparison (pure apart from the witness ghost of Memory::compare) */
_Bool c_Buffer_eq(const struct Buffer* self, const struct Buffer* other)
__CPROVER_requires(wf_Buffer(self) && wf_Buffer(other))
__CPROVER_ensures(post_eq(self, other, __CPROVER_return_value))
__CPROVER_assigns(g_cmp_wit)
;
_Bool c_Buffer_ne(const struct Buffer* self, const struct Buffer* other)
__CPROVER_requires(wf_Buffer(self) && wf_Buffer(other))
__CPROVER_ensures(post_ne(self, other, __CPROVER_return_value))
__CPROVER_assigns(g_cmp_wit)
;

/* ---- growth at either end */
void c_Buffer_prepend(struct Buffer* self, const byte* data, usize n)
__CPROVER_requires(wf_Buffer(self) && n <= NV_MAXSZ && (n == 0 || __CPROVER_r_ok(data, n)))
__CPROVER_ensures(post_view(self))
BUFFER_FRAME(self)
;
void c_Buffer_prepend_buf(struct Buffer* self, const struct Buffer* other)
__CPROVER_requires(wf_Buffer(self) && wf_Buffer(other))
__CPROVER_ensures(post_view(self))
BUFFER_FRAME(self)
;
void c_Buffer_append(struct Buffer* self, const byte* data, usize n)
__CPROVER_requires(wf_Buffer(self) && n <= NV_MAXSZ && (n == 0 || __CPROVER_r_ok(data, n)))
__CPROVER_ensures(post_view(self))
BUFFER_FRAME(self)
;
void c_Buffer_append_buf(struct Buffer* self, const struct Buffer* other)
__CPROVER_requires(wf_Buffer(self) && wf_Buffer(other))
__CPROVER_ensures(post_view(self))
BUFFER_FRAME(self)
;

/* ---- size changes */
void c_Buffer_resize(struct Buffer* self, usize n)
__CPROVER_requires(wf_Buffer(self) && n <= NV_MAXSZ)
__CPROVER_ensures(post_view(self))
BUFFER_FRAME(self)
;
void c_Buffer_removeFront(struct Buffer* self, usize n)
__CPROVER_requires(wf_Buffer(self) && n <= NV_MAXSZ)
__CPROVER_ensures(post_view(self))
BUFFER_FRAME(self)
;
void c_Buffer_removeBack(struct Buffer* self, usize n)
__CPROVER_requires(wf_Buffer(self) && n <= NV_MAXSZ)
__CPROVER_ensures(post_view(self))
BUFFER_FRAME(self)
;
void c_Buffer_reserve(struct Buffer* self, usize capacity)
__CPROVER_requires(wf_Buffer(self) && capacity <= NV_MAXSZ)
__CPROVER_ensures(post_view(self))
BUFFER_FRAME(self)
;
void c_Buffer_clear(struct Buffer* self)
__CPROVER_requires(wf_Buffer(self))
__CPROVER_ensures(post_view(self))
BUFFER_FRAME(self)
;
void c_Buffer_free(struct Buffer* self)
__CPROVER_requires(wf_Buffer(self))
__CPROVER_ensures(post_view(self))
__CPROVER_ensures(__CPROVER_old(L(self)->buffer) == 0 || __CPROVER_was_freed(__CPROVER_old(L(self)->buffer)))
BUFFER_FRAME(self)
;

/* ---- swap: only the two objects change, no byte of either storage is touched */
void c_Buffer_swap(struct Buffer* self, struct Buffer* other)
__CPROVER_requires(wf_Buffer(self) && wf_Buffer(other))
__CPROVER_ensures(post_swap(self, other))
__CPROVER_assigns(__CPROVER_object_whole(self); __CPROVER_object_whole(other))
;
