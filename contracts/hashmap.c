/* C02 -- step contracts of HashMap<K,V> (include/nstd/HashMap.hpp) on one-call extern "C"
 * wrappers.  Frames: the table object, the recycled free item, the bucket cell / chain back
 * pointer that changes, and the link fields of the order-list neighbours. */
#include "nvc.h"
#if defined(NV_POOLMAP)
struct HItem_L { long value; long key; struct HItem_L** cell; struct HItem_L* nextCell; struct HItem_L* prev; struct HItem_L* next; };
#define HIT_VALUE_TARGET
#elif defined(NV_HASHSET)
struct HItem_L { long key; struct HItem_L** cell; struct HItem_L* nextCell; struct HItem_L* prev; struct HItem_L* next; };
#define HIT_VALUE_TARGET
#else
struct HItem_L { long key; long value; struct HItem_L** cell; struct HItem_L* nextCell; struct HItem_L* prev; struct HItem_L* next; };
#define HIT_VALUE_TARGET gv_hit != 0: HI(gv_hit)->value;
#endif
struct HMap_L { struct HItem_L* _end; struct HItem_L* _begin; usize _size; usize capacity; struct HItem_L** data; struct HItem_L endItem; struct HItem_L* freeItem; void* blocks; };
#define HM(p) ((struct HMap_L*)(p))
#define HI(p) ((struct HItem_L*)(p))
#ifndef NV_CAP
#define NV_CAP 1
#endif
extern void* gv_Q; extern void* gv_N; extern void* gv_NC; extern void* gv_C; extern void* gv_c1; extern void* gv_data; extern void* gv_hit;
_Bool hm_insert_post(void* ret);
_Bool hm_remove_post(void* ret);
_Bool hm_find_post(void* ret);

void* w_HashMap_insert(void* m, void* posItem, const long* key, const long* value)
__CPROVER_requires(__CPROVER_r_ok(key, sizeof(long)) && __CPROVER_r_ok(value, sizeof(long)))
__CPROVER_ensures(hm_insert_post(__CPROVER_return_value))
__CPROVER_assigns(__CPROVER_object_whole(m); HI(posItem)->prev;
                  HM(m)->freeItem != 0: __CPROVER_object_whole(HM(m)->freeItem);
                  __CPROVER_object_upto(gv_data, NV_CAP * sizeof(void*));
                  gv_c1 != 0: HI(gv_c1)->cell;
                  HIT_VALUE_TARGET
                  gv_Q != 0: HI(gv_Q)->next)
;
void* w_HashMap_remove(void* m, void* item)
__CPROVER_ensures(hm_remove_post(__CPROVER_return_value))
__CPROVER_assigns(__CPROVER_object_whole(m); __CPROVER_object_whole(item); HI(gv_N)->prev;
                  *(struct HItem_L**)gv_C;
                  gv_NC != 0: HI(gv_NC)->cell;
                  gv_Q != 0: HI(gv_Q)->next)
;
void* w_HashMap_find(const void* m, const long* key)
__CPROVER_requires(__CPROVER_r_ok(key, sizeof(long)))
__CPROVER_ensures(hm_find_post(__CPROVER_return_value))
__CPROVER_assigns()
;
extern void* gv_a_last; extern void* gv_b_last;
_Bool hm_swap_post(void);
/* swap: only the two table objects and the `next` link of each table's last item */
void w_HashMap_swap(void* a, void* b)
__CPROVER_ensures(hm_swap_post())
__CPROVER_assigns(__CPROVER_object_whole(a); __CPROVER_object_whole(b);
                  gv_a_last != 0: HI(gv_a_last)->next; gv_b_last != 0: HI(gv_b_last)->next)
;
/* removeFront / removeBack: remove() receives the table's own _begin iterator / the sentinel's predecessor */
void* w_HashMap_removeFront(void* m)
__CPROVER_ensures(hm_remove_post(__CPROVER_return_value))
__CPROVER_assigns(__CPROVER_object_whole(m); __CPROVER_object_whole(HM(m)->_begin); HI(gv_N)->prev;
                  *(struct HItem_L**)gv_C;
                  gv_NC != 0: HI(gv_NC)->cell)
;
void* w_HashMap_removeBack(void* m)
__CPROVER_ensures(hm_remove_post(__CPROVER_return_value))
__CPROVER_assigns(__CPROVER_object_whole(m); __CPROVER_object_whole(HM(m)->endItem.prev);
                  *(struct HItem_L**)gv_C;
                  gv_NC != 0: HI(gv_NC)->cell;
                  gv_Q != 0: HI(gv_Q)->next)
;
/* PoolMap::remove(const V&): the node is computed from the element address (value at offset 0 of the item) */
void w_PoolMap_removeValue(void* m, void* item)
__CPROVER_ensures(hm_remove_post(gv_N))
__CPROVER_assigns(__CPROVER_object_whole(m); __CPROVER_object_whole(item); HI(gv_N)->prev;
                  *(struct HItem_L**)gv_C;
                  gv_NC != 0: HI(gv_NC)->cell;
                  gv_Q != 0: HI(gv_Q)->next)
;
/* remove(key) */
_Bool hm_removekey_post(void);
void w_HashMap_removeKey(void* m, const long* key)
__CPROVER_requires(__CPROVER_r_ok(key, sizeof(long)))
__CPROVER_ensures(hm_removekey_post())
__CPROVER_assigns(__CPROVER_object_whole(m);
                  gv_hit != 0: __CPROVER_object_whole(gv_hit);
                  gv_hit != 0: HI(gv_N)->prev;
                  gv_hit != 0: *(struct HItem_L**)gv_C;
                  gv_NC != 0: HI(gv_NC)->cell;
                  gv_Q != 0: HI(gv_Q)->next)
;
/* clear (bounded unit: order list of <= 2 items) */
extern void* gv_i1; extern void* gv_i2;
_Bool hm_clear_post(void);
void w_HashMap_clear(void* m)
__CPROVER_ensures(hm_clear_post())
__CPROVER_assigns(__CPROVER_object_whole(m); __CPROVER_object_upto(gv_data, NV_CAP * sizeof(void*));
                  gv_i1 != 0: __CPROVER_object_whole(gv_i1); gv_i2 != 0: __CPROVER_object_whole(gv_i2))
;
