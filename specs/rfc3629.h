/* RFC 3629 (UTF-8) section 3, rendered with plain arithmetic -- the oracle of property C18.
 *   0000 0000-0000 007F | 0xxxxxxx
 *   0000 0080-0000 07FF | 110xxxxx 10xxxxxx
 *   0000 0800-0000 FFFF | 1110xxxx 10xxxxxx 10xxxxxx
 *   0001 0000-0010 FFFF | 11110xxx 10xxxxxx 10xxxxxx 10xxxxxx
 * Surrogates D800-DFFF are no Unicode scalar values; the table is applied to them as well
 * ("generalised UTF-8"), because the property only demands the inverse law there. */
#ifndef NV_RFC3629_H
#define NV_RFC3629_H
static inline int rfc3629_encode(unsigned cp, unsigned char* out)
{
  if(cp <= 0x7F) { out[0] = (unsigned char)cp; return 1; }
  if(cp <= 0x7FF) { out[0] = (unsigned char)(0xC0 + cp / 64); out[1] = (unsigned char)(0x80 + cp % 64); return 2; }
  if(cp <= 0xFFFF)
  {
    out[0] = (unsigned char)(0xE0 + cp / 4096); out[1] = (unsigned char)(0x80 + cp / 64 % 64);
    out[2] = (unsigned char)(0x80 + cp % 64); return 3;
  }
  if(cp <= 0x10FFFF)
  {
    out[0] = (unsigned char)(0xF0 + cp / 262144); out[1] = (unsigned char)(0x80 + cp / 4096 % 64);
    out[2] = (unsigned char)(0x80 + cp / 64 % 64); out[3] = (unsigned char)(0x80 + cp % 64); return 4;
  }
  return 0;
}
/* length of the sequence announced by a lead byte, by bit pattern; 0 for 10xxxxxx and 11111xxx */
static inline unsigned rfc3629_lead_length(unsigned char b)
{
  if(b < 0x80) return 1;
  if(b >= 0xC0 && b <= 0xDF) return 2;
  if(b >= 0xE0 && b <= 0xEF) return 3;
  if(b >= 0xF0 && b <= 0xF7) return 4;
  return 0;
}
#endif
