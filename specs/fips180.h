/* FIPS 180-4 SHA-256 written from the standard (sections 4.1.2, 4.2.2, 5.1.1, 5.2.1, 5.3.3,
 * 6.2.2) -- the oracle of property C17.  Independent of src/Crypto/Sha256.cpp: textbook
 * formulation with an explicit 64-word message schedule and eight named working variables.
 * Usable from C and C++ (goto-cc and g++). */
#ifndef NV_FIPS180_H
#define NV_FIPS180_H
typedef unsigned int fips_u32;
typedef unsigned long fips_u64;
typedef unsigned char fips_u8;

static inline fips_u32 fips_ROTR(fips_u32 x, unsigned n) { return (x >> n) | (x << (32 - n)); }
static inline fips_u32 fips_Ch(fips_u32 x, fips_u32 y, fips_u32 z) { return (x & y) ^ (~x & z); }
static inline fips_u32 fips_Maj(fips_u32 x, fips_u32 y, fips_u32 z) { return (x & y) ^ (x & z) ^ (y & z); }
static inline fips_u32 fips_BSIG0(fips_u32 x) { return fips_ROTR(x, 2) ^ fips_ROTR(x, 13) ^ fips_ROTR(x, 22); }
static inline fips_u32 fips_BSIG1(fips_u32 x) { return fips_ROTR(x, 6) ^ fips_ROTR(x, 11) ^ fips_ROTR(x, 25); }
static inline fips_u32 fips_SSIG0(fips_u32 x) { return fips_ROTR(x, 7) ^ fips_ROTR(x, 18) ^ (x >> 3); }
static inline fips_u32 fips_SSIG1(fips_u32 x) { return fips_ROTR(x, 17) ^ fips_ROTR(x, 19) ^ (x >> 10); }

static const fips_u32 fips_K[64] = {
  0x428a2f98, 0x71374491, 0xb5c0fbcf, 0xe9b5dba5, 0x3956c25b, 0x59f111f1, 0x923f82a4, 0xab1c5ed5,
  0xd807aa98, 0x12835b01, 0x243185be, 0x550c7dc3, 0x72be5d74, 0x80deb1fe, 0x9bdc06a7, 0xc19bf174,
  0xe49b69c1, 0xefbe4786, 0x0fc19dc6, 0x240ca1cc, 0x2de92c6f, 0x4a7484aa, 0x5cb0a9dc, 0x76f988da,
  0x983e5152, 0xa831c66d, 0xb00327c8, 0xbf597fc7, 0xc6e00bf3, 0xd5a79147, 0x06ca6351, 0x14292967,
  0x27b70a85, 0x2e1b2138, 0x4d2c6dfc, 0x53380d13, 0x650a7354, 0x766a0abb, 0x81c2c92e, 0x92722c85,
  0xa2bfe8a1, 0xa81a664b, 0xc24b8b70, 0xc76c51a3, 0xd192e819, 0xd6990624, 0xf40e3585, 0x106aa070,
  0x19a4c116, 0x1e376c08, 0x2748774c, 0x34b0bcb5, 0x391c0cb3, 0x4ed8aa4a, 0x5b9cca4f, 0x682e6ff3,
  0x748f82ee, 0x78a5636f, 0x84c87814, 0x8cc70208, 0x90befffa, 0xa4506ceb, 0xbef9a3f7, 0xc67178f2};

static const fips_u32 fips_H0[8] = {0x6a09e667, 0xbb67ae85, 0x3c6ef372, 0xa54ff53a,
                                    0x510e527f, 0x9b05688c, 0x1f83d9ab, 0x5be0cd19};

/* 6.2.2 step 1: message schedule W_0..W_63 of one 16-word block */
static inline void fips_schedule(const fips_u32* M, fips_u32* W)
{
  for(int t = 0; t < 16; t++) W[t] = M[t];
  for(int t = 16; t < 64; t++)
    W[t] = fips_SSIG1(W[t - 2]) + W[t - 7] + fips_SSIG0(W[t - 15]) + W[t - 16];
}

/* 6.2.2 step 3: one round on the working variables v = (a,b,c,d,e,f,g,h) */
static inline void fips_round(const fips_u32* v, fips_u32 Kt, fips_u32 Wt, fips_u32* out)
{
  fips_u32 T1 = v[7] + fips_BSIG1(v[4]) + fips_Ch(v[4], v[5], v[6]) + Kt + Wt;
  fips_u32 T2 = fips_BSIG0(v[0]) + fips_Maj(v[0], v[1], v[2]);
  out[7] = v[6]; out[6] = v[5]; out[5] = v[4]; out[4] = v[3] + T1;
  out[3] = v[2]; out[2] = v[1]; out[1] = v[0]; out[0] = T1 + T2;
}

/* 6.2.2: the compression function, with the table of working variables after t rounds
 * (S[t], t = 0..64) and the schedule exposed as ghost tables for the loop contracts */
static inline void fips_tables(const fips_u32* H, const fips_u32* M, fips_u32* S /* [65*8], row t at S + 8*t */, fips_u32* W /* [64] */)
{
  fips_schedule(M, W);
  for(int k = 0; k < 8; k++) S[k] = H[k];
  for(int t = 0; t < 64; t++) fips_round(S + 8 * t, fips_K[t], W[t], S + 8 * (t + 1));
}

static inline void fips_compress(fips_u32* H, const fips_u32* M)
{
  fips_u32 S[65 * 8], W[64];
  fips_tables(H, M, S, W);
  for(int k = 0; k < 8; k++) H[k] = H[k] + S[64 * 8 + k]; /* step 4 */
}

/* 5.2.1: a 512-bit block is parsed as sixteen big-endian 32-bit words */
static inline void fips_parse_block(const fips_u8* B, fips_u32* M)
{
  for(int i = 0; i < 16; i++)
    M[i] = ((fips_u32)B[4 * i] << 24) | ((fips_u32)B[4 * i + 1] << 16) | ((fips_u32)B[4 * i + 2] << 8) | (fips_u32)B[4 * i + 3];
}

/* 5.1.1: padding of the final partial block: tail[0..r) are the message bytes not yet
 * compressed (r = total mod 64), total = message length in bytes.  Produces one block when
 * r < 56 and two otherwise; returns the number of blocks. */
static inline int fips_pad(const fips_u8* tail, fips_u64 total, fips_u8* out)
{
  unsigned r = (unsigned)(total & 63);
  int blocks = r < 56 ? 1 : 2;
  fips_u64 bits = total << 3; /* length modulo 2^64 as in the standard */
  for(unsigned i = 0; i < 128; i++) out[i] = i < r ? tail[i & 63] : 0;
  out[r] = 0x80;
  for(int i = 0; i < 8; i++) out[blocks * 64 - 1 - i] = (fips_u8)(bits >> (8 * i));
  return blocks;
}

/* 6.2: the whole hash of a message held in memory (used for the test-vector anchor and the
 * bounded glue checks; n is small there) */
static inline void fips_sha256(const fips_u8* msg, fips_u64 n, fips_u8* digest)
{
  fips_u32 H[8], M[16];
  fips_u8 tail[64], pad[128];
  for(int k = 0; k < 8; k++) H[k] = fips_H0[k];
  fips_u64 off = 0;
  while(n - off >= 64)
  {
    fips_parse_block(msg + off, M);
    fips_compress(H, M);
    off += 64;
  }
  for(unsigned i = 0; i < 64; i++) tail[i] = i < n - off ? msg[off + i] : 0;
  int blocks = fips_pad(tail, n, pad);
  for(int b = 0; b < blocks; b++)
  {
    fips_parse_block(pad + 64 * b, M);
    fips_compress(H, M);
  }
  for(int k = 0; k < 8; k++)
  {
    digest[4 * k] = (fips_u8)(H[k] >> 24); digest[4 * k + 1] = (fips_u8)(H[k] >> 16);
    digest[4 * k + 2] = (fips_u8)(H[k] >> 8); digest[4 * k + 3] = (fips_u8)H[k];
  }
}
#endif
