#pragma once
#include <nstd/Base.hpp>
// dependency stub: interface only (front end rejects the partial specialisation in the real header)
template <typename A> class Future
{
public:
  Future() {} ~Future() {}
  operator A(); void join(); bool isAborting() const; bool isFinished() const; bool isAborted() const; void abort();
  template <typename B> void start(A (*func)(B), const B& b);
  template <class C, typename B, typename P> void start(C& c, A (C::*func)(B), const P& p);
};
