
#pragma once

#include <nstd/Base.hpp>

class Atomic
{
public:
  static inline int32 increment(volatile int32& var);
  static inline uint32 increment(volatile uint32& var);
  static inline int64 increment(volatile int64& var);
  static inline uint64 increment(volatile uint64& var);

  static inline int32 decrement(volatile int32& var);
  static inline uint32 decrement(volatile uint32& var);
  static inline int64 decrement(volatile int64& var);
  static inline uint64 decrement(volatile uint64& var);

  static inline int32 compareAndSwap(int32 volatile& var, int32 oldVal, int32 newVal);
  static inline uint32 compareAndSwap(uint32 volatile& var, uint32 oldVal, uint32 newVal);
  static inline int64 compareAndSwap(int64 volatile& var, int64 oldVal, int64 newVal);
  static inline uint64 compareAndSwap(uint64 volatile& var, uint64 oldVal, uint64 newVal);
  template <typename T> static inline T* compareAndSwap(T* volatile& ptr, T* oldVal, T* newVal);

  static inline int32 swap(int32 volatile& var, int32 val);
  static inline uint32 swap(uint32 volatile& var, uint32 val);
  static inline int64 swap(int64 volatile& var, int64 val);
  static inline uint64 swap(uint64 volatile& var, uint64 val);
  template <typename T> static inline T* swap(T* volatile& ptr, T* val);

  static inline int32 testAndSet(int32 volatile& var);
  static inline uint32 testAndSet(uint32 volatile& var);
  static inline int64 testAndSet(int64 volatile& var);
  static inline uint64 testAndSet(uint64 volatile& var);

  static inline int32 fetchAndAdd(int32 volatile& var, int32 val);
  static inline uint32 fetchAndAdd(uint32 volatile& var, uint32 val);
  static inline int64 fetchAndAdd(int64 volatile& var, int64 val);
  static inline uint64 fetchAndAdd(uint64 volatile& var, uint64 val);

  static inline void memoryBarrier();

  static inline int32 load(const int32 volatile& var);
  static inline uint32 load(const uint32 volatile& var);
  static inline int64 load(const int64 volatile& var);
  static inline uint64 load(const uint64 volatile& var);
  template <typename T> static inline T* load(T* const volatile& ptr);

  static inline void store(int32 volatile& var, int32 value);
  static inline void store(uint32 volatile& var, uint32 value);
  static inline void store(int64 volatile& var, int64 value);
  static inline void store(uint64 volatile& var, uint64 value);
  template <typename T> static inline void store(T* volatile& ptr, T* value);
};


// verification seam: sequentially-atomic models of the gcc __sync builtins
int32 Atomic::increment(volatile int32& var) {return ++var;}
uint32 Atomic::increment(volatile uint32& var) {return ++var;}
int64 Atomic::increment(volatile int64& var) {return ++var;}
uint64 Atomic::increment(volatile uint64& var) {return ++var;}
int32 Atomic::decrement(volatile int32& var) {return --var;}
uint32 Atomic::decrement(volatile uint32& var) {return --var;}
int64 Atomic::decrement(volatile int64& var) {return --var;}
uint64 Atomic::decrement(volatile uint64& var) {return --var;}
