#pragma once
#include <nstd/Base.hpp>
// C13 dependency seam: interface only (goto-cc cannot translate PoolList's explicit ->~T() calls);
// the write path of Server never touches a PoolList.
template<typename T> class PoolList
{
public:
  PoolList() {} ~PoolList() {}
private:
  char opaque[64];
};
