#pragma once
#include <nstd/Base.hpp>
// C13 dependency seam: interface only (pthread wrapper, unused by the write path)
class Mutex
{
public:
  Mutex() {} ~Mutex() {}
  void lock(); bool tryLock(); void unlock();
private:
  char opaque[64];
};
