#pragma once
#include <nstd/Base.hpp>
// C13 dependency seam: interface only.  ClientImpl::write/read call _closingClients.append(this);
// that call is replaced by a contract which records the queued client.
extern "C" void nv_closing_append(const void* client); // hook: records the client queued for onClosed
template<typename T> class HashSet
{
public:
  explicit HashSet(usize capacity) {} ~HashSet() {}
  T& append(const T& key) { nv_closing_append((const void*)key); return (T&)key; }
private:
  char opaque[128];
};
