#pragma once
#include <nstd/Base.hpp>
// C13 dependency seam: interface only; the write path of Server never touches the timer queue.
template<typename K, typename V> class MultiMap
{
public:
  MultiMap() {} ~MultiMap() {}
private:
  char opaque[128];
};
