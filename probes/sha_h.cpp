#define private public
#include "/repo/src/Crypto/Sha256.cpp"
extern "C" void spec_compress(unsigned H[8], const unsigned M[16]);
extern "C" void h_transform()
{
  unsigned st[8], st2[8], m[16];
  for(int i=0;i<8;i++) st2[i]=st[i];
  Sha256::Private::Transform(st, m);
  spec_compress(st2, m);
  for(int i=0;i<8;i++) __CPROVER_assert(st[i]==st2[i], "transform equals FIPS compression");
}
