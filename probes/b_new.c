typedef unsigned long usize;
void *malloc(usize); void free(void*);
void *__new_array(usize count, usize size) { void* p = malloc(count * size); __CPROVER_assume(p != 0); return p; }
void *__new(usize size) { void* p = malloc(size); __CPROVER_assume(p != 0); return p; }
void __delete_array(void *p) { free(p); }
void __delete(void *p) { free(p); }
