typedef unsigned long usize;
struct Acc {
  usize best;
  usize find(const unsigned* a, usize n)
  {
    best = 0;
    for (usize i = 1; i < n; i++)
    { if (a[i] > a[best]) best = i; }
    return best;
  }
};
extern "C" void h_find(Acc* acc, const unsigned* a, usize n)
{
  acc->find(a, n);
}
