typedef unsigned long usize;
void *memcpy(void*, const void*, usize); void *memmove(void*, const void*, usize);
void nv_copy(void* d, const void* s, usize n){ memcpy(d,s,n); }
void nv_move(void* d, const void* s, usize n){ memmove(d,s,n); }
