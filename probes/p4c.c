typedef unsigned long usize;
struct Acc;
struct Acc_L { usize best; };
#define L(p) ((struct Acc_L*)(p))
usize c_find(struct Acc* self, const unsigned* a, usize n)
__CPROVER_requires(n > 0 && n <= 4096 && __CPROVER_is_fresh(a, n * sizeof(*a)) && __CPROVER_is_fresh(self, sizeof(struct Acc_L)))
__CPROVER_ensures(__CPROVER_return_value < n)
__CPROVER_ensures(L(self)->best == __CPROVER_return_value)
__CPROVER_assigns(L(self)->best)
;
