#define private public
#include <nstd/Buffer.hpp>
extern "C" {
unsigned long nondet_ulong(); unsigned char nondet_uchar();
// predicates over the real private fields
bool wf_Buffer(const Buffer* b)
{
  if(b->buffer)
    return __CPROVER_same_object(b->buffer, b->bufferStart) && __CPROVER_same_object(b->buffer, b->bufferEnd)
      && b->buffer <= b->bufferStart && b->bufferStart <= b->bufferEnd && b->bufferEnd <= b->buffer + b->_capacity
      && __CPROVER_OBJECT_SIZE(b->buffer) == b->_capacity + 1 && __CPROVER_POINTER_OFFSET(b->buffer) == 0 && *b->bufferEnd == 0;
  return b->bufferStart == (const byte*)&b->_capacity && b->bufferEnd == b->bufferStart && b->_capacity == 0;
}
usize size_Buffer(const Buffer* b) { return b->bufferEnd - b->bufferStart; }
byte at_Buffer(const Buffer* b, usize k) { return b->bufferStart[k]; }
// ghost snapshot
usize g_oldSize; usize g_k; byte g_oldAt; byte g_dataAt;
bool post_append(const Buffer* b, const byte* data, usize n)
{
  if(!wf_Buffer(b)) return false;
  if(size_Buffer(b) != g_oldSize + n) return false;
  if(g_k < g_oldSize) return at_Buffer(b, g_k) == g_oldAt;
  if(g_k < g_oldSize + n) return at_Buffer(b, g_k) == g_dataAt;
  return true;
}
void h_append()
{
  usize kind = nondet_ulong(), cap = nondet_ulong(), head = nondet_ulong(), sz = nondet_ulong(), n = nondet_ulong();
  __CPROVER_assume(cap <= 6 && head <= cap && sz <= cap - head && n <= 4);
  Buffer b;
  if(kind & 1)
  {
    b.buffer = (byte*)new char[cap + 1];
    b._capacity = cap; b.bufferStart = b.buffer + head; b.bufferEnd = b.bufferStart + sz; *b.bufferEnd = 0;
  }
  byte data[4];
  g_oldSize = size_Buffer(&b); g_k = nondet_ulong();
  __CPROVER_assume(g_k < g_oldSize + n);
  if(g_k < g_oldSize) g_oldAt = at_Buffer(&b, g_k); else g_dataAt = data[g_k - g_oldSize];
  b.append(data, n);
}
}
