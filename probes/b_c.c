typedef unsigned long usize; typedef unsigned char byte;
struct Buffer;
_Bool wf_Buffer(const struct Buffer*); _Bool post_append(const struct Buffer*, const byte*, usize);
struct Buffer_L { byte* buffer; byte* bufferStart; byte* bufferEnd; usize _capacity; };
#define L(p) ((struct Buffer_L*)(p))
void c_Buffer_append(struct Buffer* self, const byte* data, usize n)
__CPROVER_requires(wf_Buffer(self) && n <= 4 && __CPROVER_r_ok(data, n))
__CPROVER_ensures(post_append(self, data, n))
__CPROVER_assigns(__CPROVER_object_whole(self); L(self)->buffer != 0: __CPROVER_object_whole(L(self)->buffer))
;
