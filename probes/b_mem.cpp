#include <nstd/Memory.hpp>
extern "C" void nv_copy(void*, const void*, usize); extern "C" void nv_move(void*, const void*, usize);
void Memory::copy(void* d, const void* s, usize n){ nv_copy(d,s,n); }
void Memory::move(void* d, const void* s, usize n){ nv_move(d,s,n); }
