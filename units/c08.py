"""C08 -- Buffer.  Units = one enforced contract per public method of class Buffer."""
MC = ("Memory::copy(ptr_void|ptr_const_void|unsigned_long_int)", "c_Memory_copy")
MM = ("Memory::move(ptr_void|ptr_const_void|unsigned_long_int)", "c_Memory_move")
MCMP = ("Memory::compare(ptr_const_void|ptr_const_void|unsigned_long_int)", "c_Memory_compare")
SRCS = ["harness/buffer.cpp", "contracts/buffer.c", "contracts/memory.c"]
CREF = "ref_struct_tag(identifier=tag-Buffer|#constant=1_1)"
REF = "ref_struct_tag(identifier=tag-Buffer)"
DATA = "ptr_const_unsigned_char|unsigned_long_int"


def U(name, fn, contract, reach=(), tier="quick", **kw):
    d = dict(name="Buffer." + name, prop="C08", entry="h_" + name.split("@")[0], srcs=SRCS,
             enforce=(fn, contract) if fn else None,
             replace=[MC, MM, MCMP], kind="proof", tier=tier, reach=list(reach), timeout=3600,
             funcs=[fn.split("(")[0]] if fn else [], native=["src/Memory.cpp"], min_obligations=20)
    d.update(kw)
    return d


# input classes: @owned = default-constructed or owning pre-state, other operand distinct;
# @attached = pre-state attached to foreign memory; @self = the const Buffer& argument is *this.
def V(name, fn, contract, reach, two=False, attached_reach=None, self_reach=None, **kw):
    out = [U(name, fn, contract, reach, defs=["NV_KINDS=3"] + (["NV_ALIAS=0"] if two else []), **kw)]
    out.append(U(name + "@attached", fn, contract, attached_reach or [], entry="h_" + name,
                 defs=["NV_KINDS=4"] + (["NV_ALIAS=0"] if two else []), **kw))
    if two:
        out.append(U(name + "@self", fn, contract, self_reach or [], entry="h_" + name,
                     defs=["NV_KINDS=7", "NV_ALIAS=1"], **kw))
    return out


# prepend(const Buffer&): the self-argument class goes through a temporary copy and is slow
# with everything inlined (thorough tier only).
_PB = ("Buffer::prepend(this|%s)" % CREF, "c_Buffer_prepend_buf")
_PINNER = ("Buffer::prepend(this|%s)" % DATA, "c_Buffer_prepend")
PREPEND_BUF = [
    U("prepend_buf", _PB[0], _PB[1], ["prepend_buf.other"], defs=["NV_KINDS=3", "NV_ALIAS=0"],
      cost=100),
    U("prepend_buf@attached", _PB[0], _PB[1], ["prepend_buf.other"], entry="h_prepend_buf",
      defs=["NV_KINDS=4", "NV_ALIAS=0"]),
    U("prepend_buf@self", _PB[0], _PB[1], ["prepend_buf.self"], entry="h_prepend_buf",
      defs=["NV_KINDS=7", "NV_ALIAS=1"], object_bits=9, tier="thorough", timeout=3000, cost=1000),
]

UNITS = [
    U("layout", None, None, replace=[], min_obligations=1),
    U("ctor_default", "Buffer::Buffer(this)", "c_Buffer_ctor_default", ["ctor_default.return"]),
    U("ctor_cap", "Buffer::Buffer(this|unsigned_long_int)", "c_Buffer_ctor_cap", ["ctor_cap.return"]),
    U("ctor_data", "Buffer::Buffer(this|%s)" % DATA, "c_Buffer_ctor_data", ["ctor_data.return"]),
    U("ctor_copy", "Buffer::Buffer(this|%s)" % CREF, "c_Buffer_ctor_copy", ["ctor_copy.return"]),
    U("dtor", "Buffer::~Buffer(this)", "c_Buffer_dtor", ["dtor.return"]),
    U("attach", "Buffer::attach(this|ptr_unsigned_char|unsigned_long_int)", "c_Buffer_attach", ["attach.return"]),
    U("observers", None, None, ["observers.return"], replace=[], min_obligations=5,
      funcs=["Buffer::size", "Buffer::capacity", "Buffer::isEmpty", "Buffer::operator const byte*"]),
] + V("assign_op", "Buffer::operator=(this|%s)" % CREF, "c_Buffer_assign_op",
      ["assign_op.realloc", "assign_op.inplace"], two=True, attached_reach=["assign_op.realloc"], self_reach=["assign_op.self"]) \
  + V("assign", "Buffer::assign(this|%s)" % DATA, "c_Buffer_assign", ["assign.realloc", "assign.inplace"],
      attached_reach=["assign.realloc"]) \
  + V("eq", "Buffer::operator==($constthis|%s)" % CREF, "c_Buffer_eq", ["eq.true", "eq.false_content"], two=True,
      attached_reach=["eq.true", "eq.false_content"]) \
  + V("ne", "Buffer::operator!=($constthis|%s)" % CREF, "c_Buffer_ne", ["ne.false", "ne.true_content"], two=True,
      attached_reach=["ne.false", "ne.true_content"]) \
  + V("prepend", "Buffer::prepend(this|%s)" % DATA, "c_Buffer_prepend",
      ["prepend.realloc", "prepend.move", "prepend.headroom"], attached_reach=["prepend.realloc"], cost=100) \
  + PREPEND_BUF \
  + V("append", "Buffer::append(this|%s)" % DATA, "c_Buffer_append", ["append.realloc", "append.inplace"],
      attached_reach=["append.realloc"], cost=100) \
  + V("append_buf", "Buffer::append(this|%s)" % CREF, "c_Buffer_append_buf", ["append_buf.other"], two=True,
      attached_reach=["append_buf.other"], self_reach=["append_buf.self"], cost=100) \
  + V("resize", "Buffer::resize(this|unsigned_long_int)", "c_Buffer_resize",
      ["resize.realloc", "resize.move", "resize.grow_inplace", "resize.shrink"], attached_reach=["resize.realloc"], cost=50) \
  + V("removeFront", "Buffer::removeFront(this|unsigned_long_int)", "c_Buffer_removeFront",
      ["removeFront.partial", "removeFront.all"], attached_reach=["removeFront.partial", "removeFront.all"]) \
  + V("removeBack", "Buffer::removeBack(this|unsigned_long_int)", "c_Buffer_removeBack",
      ["removeBack.partial", "removeBack.all"], attached_reach=["removeBack.partial", "removeBack.all"]) \
  + V("reserve", "Buffer::reserve(this|unsigned_long_int)", "c_Buffer_reserve", ["reserve.realloc", "reserve.noop"],
      attached_reach=["reserve.realloc"]) \
  + V("clear", "Buffer::clear(this)", "c_Buffer_clear", ["clear.return"], attached_reach=["clear.return"]) \
  + V("free", "Buffer::free(this)", "c_Buffer_free", ["free.return"], attached_reach=["free.return"]) \
  + V("swap", "Buffer::swap(this|%s)" % REF, "c_Buffer_swap", ["swap.return"], two=True,
      attached_reach=["swap.return"], self_reach=["swap.return"])

TRUSTED = [
    "cbmc 6.11.0 / goto-instrument DFCC contract instrumentation / minisat",
    "goto-cc C++ front end translation of include/nstd/Buffer.hpp (unmodified text)",
    "assumed contracts of Memory::copy/move/compare (libc memcpy/memmove/memcmp), contracts/memory.c",
    "operator new[]/delete[] modelled by malloc/free, allocation never fails (engine/cxx_alloc.c)",
]
ASSUMPTIONS = [
    "all sizes and capacities <= 0x7ffffff0 (goto-cc truncates new[] counts to 32 bits); usize sums therefore do not wrap",
    "Memory::copy/move/compare behave as memcpy/memmove/memcmp (contract assumed, not verified against libc)",
    "histories are covered by induction over operations: every public method preserves the representation invariant wf_Buffer and maps the abstract view as the reference byte queue does; the induction itself is the standard argument, not machine-checked",
    "pointer comparisons of out-of-bounds intermediate pointers (start + size <= buffer + capacity) are not treated as violations",
    "data arguments do not point into the Buffer's own storage (aliasing is covered only through the const Buffer& overloads with other == *this)",
]
EXPLANATION = ("Each public method of Buffer is verified against a contract "
               "requires wf(old) / ensures wf(new) && view(new) == model(view(old), args) / assigns frame, "
               "over a fully symbolic pre-state (ownership kind, capacity, head-room, size, content).")
