"""C18 -- text codecs: Unicode.hpp, String::fromHex, String::fromBase64."""
SRCS = ["harness/unicode.cpp", "contracts/unicode.c", "contracts/string_iface.c", "contracts/memory.c"]
MC = ("Memory::copy(ptr_void|ptr_const_void|unsigned_long_int)", "c_Memory_copy")
MM = ("Memory::move(ptr_void|ptr_const_void|unsigned_long_int)", "c_Memory_move")
MCMP = ("Memory::compare(ptr_const_void|ptr_const_void|unsigned_long_int)", "c_Memory_compare")
CREF = "ref_struct_tag(identifier=tag-String|#constant=1_1)"
APPEND = "Unicode::append(unsigned_int|ref_struct_tag(identifier=tag-String))"
FROMSTR = "Unicode::fromString(ptr_const_char|unsigned_long_int)"
ISVALID = "Unicode::isValid(ptr_const_char|unsigned_long_int)"
S_APPEND_CHAR = ("String::append(this|const_char)", "c_String_append_char_log")
S_RESIZE = ("String::resize(this|unsigned_long_int)", "c_String_resize_iface")
S_RESERVE = ("String::reserve(this|unsigned_long_int)", "c_String_reserve_iface")
S_MUT = ("String::nvMutable(this)", "c_String_nvMutable_iface")


def U(name, entry, enforce=None, replace=(), reach=(), **kw):
    d = dict(name="Codec." + name, prop="C18", entry=entry, srcs=SRCS, enforce=enforce, replace=list(replace),
             kind="proof", tier="quick", reach=list(reach), timeout=900, no_native=True,
             funcs=[enforce[0].split("(")[0]] if enforce else [], min_obligations=1)
    d.update(kw)
    return d


UNITS = [
    U("Unicode.length", "h_length", reach=["length.return"], funcs=["Unicode::length"]),
    U("Unicode.append", "h_append", (APPEND, "c_Unicode_append"), replace=[S_APPEND_CHAR], reach=["append.four", "append.reject"]),
    U("Unicode.append_array", "h_append_arr", ("Unicode::append(ptr_const_unsigned_int|unsigned_long_int|ref_struct_tag(identifier=tag-String))", "c_Unicode_append_arr"),
      replace=[(APPEND, "r_Unicode_append_one")], reach=["append_arr.return"], loops="contracts/unicode_appendarr.loops.json"),
    U("Unicode.inverse", "h_inverse", reach=["inverse.return"], funcs=["Unicode::fromString", "Unicode::length"]),
    U("Unicode.fromString", "h_fromString", (FROMSTR, "c_Unicode_fromString"), reach=["fromString.return"]),
    U("Unicode.isValid", "h_isValid", (ISVALID, "c_Unicode_isValid"), reach=["isValid.return"],
      loops="contracts/unicode_isvalid.loops.json"),
    U("String.fromHex", "h_fromHex", None, replace=[S_RESIZE, S_MUT, MC], reach=["fromHex.return"],
      loops="contracts/string_fromhex.loops.json", funcs=["String::fromHex"]),
    U("String.fromHex.2bytes", "h_fromHex_bounded", None, replace=[S_RESIZE, S_MUT, MC], reach=["fromHex_bounded.return"], kind="bounded",
      bound="2 input bytes (content symbolic); no loop contract", funcs=["String::fromHex"], cbmc=["--unwind", "4", "--unwinding-assertions"]),
    U("String.fromBase64.safety", "h_fromBase64_safety", None, replace=[S_RESIZE, S_RESERVE, S_MUT, MC],
      reach=["fromBase64_safety.return"], loops="contracts/string_frombase64.loops.json", funcs=["String::fromBase64"]),
] + [
    U("String.fromBase64.roundtrip.%dbytes" % n, "h_fromBase64_roundtrip", None, replace=[S_RESIZE, S_RESERVE, S_MUT, MC],
      reach=["fromBase64_roundtrip.return"], defs=["NV_B64_BYTES=%d" % n], kind="bounded",
      bound="%d source bytes (content symbolic), RFC 4648 encoding built by the harness" % n, funcs=["String::fromBase64"],
      cbmc=["--unwind", "%d" % (4 * ((n + 2) // 3) + 2), "--unwinding-assertions"])
    for n in (1, 2, 3, 4, 5, 6)
]
TRUSTED = ["cbmc 6.11.0 / goto-instrument DFCC / CaDiCaL", "goto-cc C++ front end; String.hpp member subset (compat rules R2-R4), "
           "function slices of src/String.cpp (fromHex, fromBase64)", "specs/rfc3629.h as rendering of RFC 3629 section 3"]
ASSUMPTIONS = [
    "String::append(char) is replaced by a byte-logging contract; String::resize/reserve/mutable conversion on the codec's fresh result "
    "object are replaced by interface contracts (contracts/string_iface.c) -- they are claims of C06, assumed here",
    "integer <-> string conversions (String::toInt/fromInt/... ) are one-line calls of libc atoi/strtoull/vsnprintf: no body, no contract within reach -- NOT decided",
    "surrogate code points D800-DFFF: only the inverse law is required (generalised 3-byte form)",
    "fromBase64 functional round trip is bounded (1..6 source bytes); memory safety of fromBase64 and everything about fromHex, "
    "Unicode::length/append/fromString/isValid is unbounded",
]
EXPLANATION = "Per-function contracts for the codecs; loops closed by loop contracts; the inverse law is a loop-free lemma over all code points."
