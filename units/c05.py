"""C05 -- elements never move while they live.  Decided for List, HashMap, HashSet, PoolMap: the step contracts of
List::insert / remove / swap carry FRAMES that name exactly the link fields that may change; the
payload of every existing element and every node not adjacent to the operation is outside the
frame, and the predicates compare node ADDRESSES, so an element that was relocated, copied or
re-linked elsewhere fails an assigns / postcondition obligation.  Same units as C03's step units."""
import importlib.util, os
_spec = importlib.util.spec_from_file_location("units_c03_for_c05", os.path.join(os.path.dirname(__file__), "c03.py"))
_c03 = importlib.util.module_from_spec(_spec)
_spec.loader.exec_module(_c03)

UNITS = []
for _u in _c03.UNITS:
    if _u["name"].startswith("PoolList.") or _u["name"] in ("List.layout", "List.insert", "List.remove", "List.removeFront", "List.removeBack", "List.swap"):
        _d = dict(_u)
        _d["prop"] = "C05"
        UNITS.append(_d)
_spec2 = importlib.util.spec_from_file_location("units_c02_for_c05", os.path.join(os.path.dirname(__file__), "c02.py"))
_c02 = importlib.util.module_from_spec(_spec2)
_spec2.loader.exec_module(_c02)
for _u in _c02.UNITS:
    if ".insert@" in _u["name"] or ".remove@" in _u["name"] or _u["name"].endswith(".layout") or _u["name"].endswith(".swap") or ".removeFront" in _u["name"] or ".removeBack" in _u["name"] or ".remove_key" in _u["name"] or ".remove_value" in _u["name"]:
        _d = dict(_u)
        _d["prop"] = "C05"
        UNITS.append(_d)
TRUSTED = _c03.TRUSTED + _c02.TRUSTED
ASSUMPTIONS = [
    "List, PoolList, HashMap, HashSet and PoolMap are covered (insert / remove / swap step contracts; HashMap/HashSet insert relative to bucket chains of <= 2 nodes). "
    "PoolList: append() / remove x4 / swap step contracts (element constructed in place behind the node header, node computed from the element address). Map and MultiMap have no step contracts: for them C05 is not decided; swap of the hash containers is covered for two distinct tables",
    "history statement = induction over operations: no operation's frame contains the payload or the address of an element other than the one inserted / removed",
    "iterators are plain node pointers (List::Iterator::item), so iterator validity is node address stability",
]
EXPLANATION = "Address stability of List / HashMap / HashSet elements follows from the frames (assigns clauses) of the step contracts of insert, remove and swap, discharged by DFCC for symbolic neighbourhoods: no frame contains the key/value or the address of another element."
