"""C13 -- Server client write path."""
SRCS = ["harness/server.cpp", "contracts/server.c", "contracts/memory.c"]
MC = ("Memory::copy(ptr_void|ptr_const_void|unsigned_long_int)", "c_Memory_copy")
MM = ("Memory::move(ptr_void|ptr_const_void|unsigned_long_int)", "c_Memory_move")
SEND = ("Socket::send(this|ptr_const_unsigned_char|unsigned_long_int)", "c_Socket_send")
ERR = ("Socket::getLastError()", "c_Socket_getLastError")
RECV = ("Socket::recv(this|ptr_unsigned_char|unsigned_long_int|unsigned_long_int)", "c_Socket_recv")


def U(name, entry, enforce, reach, **kw):
    d = dict(name="Server." + name, prop="C13", entry=entry, srcs=SRCS, enforce=(enforce, None), replace=[MC, MM, SEND, ERR, RECV],
             kind="proof", tier="quick", reach=list(reach), timeout=1500, no_native=True, inc_first=["dep/c13"],
             funcs=["Server::Private::ClientImpl::" + name], min_obligations=1)
    d.update(kw)
    return d


UNITS = [
    U("write", "h_write", "w_client_write", ["write.partial", "write.would_block", "write.behind_backlog", "write.refused"],
      split=[r"postcondition", r"precondition"], cost=1000, timeout=3000),
    U("write_ready", "h_write_ready", "w_write_ready", ["write_ready.drained", "write_ready.partial", "write_ready.closed"],
      funcs=["Server::Private::run (write-ready branch)"]),
    U("read", "h_read", "w_client_read", ["read.data", "read.would_block", "read.closed"]),
    U("suspend", "h_suspend", "w_client_suspend", ["suspend.change"]),
    U("resume", "h_resume", "w_client_resume", ["resume.change"]),
]
TRUSTED = ["cbmc 6.11.0 / goto-instrument DFCC / CaDiCaL",
           "goto-cc C++ front end; function slice of src/Socket/Server.cpp (class Server::Private, ClientImpl::write/read/suspend/resume, "
           "write-ready branch of run() carried verbatim by the synthetic member nv_write_ready; compat rule R8)",
           "dependency seams dep/c13 (PoolList, MultiMap, HashSet, Mutex: interface only), dep/nstd/Future.hpp",
           "Socket::send / getLastError: the OS as an assumed contract; Socket::Poll::set/remove: recorder bodies in the harness"]
ASSUMPTIONS = [
    "the operating system delivers to the peer exactly the bytes Socket::send accepted, in order (outside the code)",
    "whole-connection statement = induction over write() calls and write-ready events using the two per-step contracts (paper argument); "
    "each step contract is proved for every backlog geometry, every send outcome and every stream position",
    "Buffer members are inlined real code (C08 proves them separately); Memory::copy/move are assumed contracts",
    "read notifications: only the registered interest flags are checked (suspended => never registered for read); the dispatch loop itself (epoll) is C14, not applicable",
]
EXPLANATION = "Per-call contracts of the client write path over a ghost OS log; Socket::send replaced by a contract admitting every outcome."
