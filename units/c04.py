"""C04 -- containers construct and destroy each element exactly once; copies are deep.
Decided for PoolList only (step contracts: the ghost construction / destruction counters of the
element type are part of the postconditions).  Array: bounded units exist (units/_array_units.py,
harness/array.cpp) but are parked -- they exhaust memory on the repaired tree.  For List / HashMap /
HashSet / PoolMap / Map / MultiMap the element is a MEMBER of the node and goto-cc does not run member
destructors in `item->~Item()` (probe P28): not decided."""
import importlib.util, os
_spec = importlib.util.spec_from_file_location("units_c03_for_c04", os.path.join(os.path.dirname(__file__), "c03.py"))
_c03 = importlib.util.module_from_spec(_spec)
_spec.loader.exec_module(_c03)

UNITS = []
for _u in _c03.UNITS:
    if _u["name"].startswith("PoolList.") or _u["name"].startswith("Array."):
        _d = dict(_u)
        _d["prop"] = "C04"
        UNITS.append(_d)
TRUSTED = _c03.TRUSTED
ASSUMPTIONS = [
    "PoolList<T> only, with an element class that counts constructions / destructions in ghost state (the class is named `T` so that goto-cc "
    "resolves the pseudo-destructor calls `->~T()`); Array, List, HashMap, HashSet, PoolMap, Map, MultiMap: NOT decided",
    "step contracts over a symbolic neighbourhood (append(): exactly one construction, in place, at the returned address; every remove flavour: exactly one "
    "destruction at the element's address; swap: none); PoolList::clear is a bounded stand-in (<= 2 elements: each destroyed once, in place); ~PoolList is not covered; append(a, ...) overloads are member templates goto-cc cannot instantiate",
    "Array: the bounded units found the append(a[j]) use-after-free on the unrepaired tree and were discharged for append / copy / assignment there; on the repaired tree every unit "
    "exhausts 44 GB (solver ERROR) -- parked, enable with NV_ARRAY=1",
]
EXPLANATION = ("Element lifetimes of PoolList (proof, per step) against ghost construction / destruction counters; "
               "found and fixed on the way: Array::append(a[i]) / resize(n, a[i]) use-after-free, Array self-assignment (Array units parked).")
