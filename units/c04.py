"""C04 -- containers construct and destroy each element exactly once; copies are deep.
Decided for the two containers whose element lifetime the verifier can follow: PoolList (step
contracts: the ghost construction / destruction counters of the element type are part of the
postconditions) and Array (bounded whole-array units over the real allocation, thorough tier).
For List / HashMap / HashSet / PoolMap / Map / MultiMap the element is a MEMBER of the node and
goto-cc does not run member destructors in `item->~Item()` (probe P28), so "destroyed exactly
once" has no faithful obligation there: not decided."""
import importlib.util, os
_spec = importlib.util.spec_from_file_location("units_c03_for_c04", os.path.join(os.path.dirname(__file__), "c03.py"))
_c03 = importlib.util.module_from_spec(_spec)
_spec.loader.exec_module(_c03)

UNITS = []
for _u in _c03.UNITS:
    if _u["name"].startswith("PoolList.") or _u["name"].startswith("Array."):
        _d = dict(_u)
        _d["prop"] = "C04"
        UNITS.append(_d)
TRUSTED = _c03.TRUSTED + ["goto-cc C++ front end; Array.hpp with compat rules R1, R12 (destructor body moved into a member function)"]
ASSUMPTIONS = [
    "PoolList<T> and Array<T> only, with an element class that counts constructions / destructions in ghost state (the class is named `T` so that goto-cc "
    "resolves the pseudo-destructor calls `->~T()`); List, HashMap, HashSet, PoolMap, Map, MultiMap: NOT decided (member destructors are not run by goto-cc, P28)",
    "PoolList: step contracts over a symbolic neighbourhood (append(): exactly one construction, in place, at the returned address; every remove flavour: exactly one "
    "destruction at the element's address; swap: none); PoolList::clear and ~PoolList are not covered; append(a, ...) overloads are member templates goto-cc cannot instantiate",
    "Array: bounded units with a fixed element count per unit (<= 4, growth 3 -> 7 inside), thorough tier only (about 20 GB of memory each; at most two run at a time): "
    "live-element count == size() after every operation and 0 after destruction, released storage never read (pointer obligations), copies deep, assignment to itself, "
    "append(a[j]) / resize(n, a[j]) with an element of the array as argument",
    "no leak / double free: the live counter returns to 0 and cbmc's deallocated-object obligations hold; memory-leak checking of the raw blocks themselves is not enabled",
]
EXPLANATION = ("Element lifetimes of PoolList (proof, per step) and Array (bounded) against ghost construction / destruction counters; "
               "found and fixed: Array::append(a[i]) / resize(n, a[i]) use-after-free, Array self-assignment.")
