"""C04 -- containers construct and destroy each element exactly once; copies are deep.
Decided for PoolList (step contracts: the ghost construction / destruction counters of the element
type are part of the postconditions) and, as bounded stand-ins, for single operations of Array
(harness/array_step.cpp: live-element counter, cbmc's deallocated-object obligations).  For List /
HashMap / HashSet / PoolMap / Map / MultiMap the element is a MEMBER of the node and goto-cc does
not run member destructors in `item->~Item()` (probe P28): not decided."""
import importlib.util, os
_spec = importlib.util.spec_from_file_location("units_c03_for_c04", os.path.join(os.path.dirname(__file__), "c03.py"))
_c03 = importlib.util.module_from_spec(_spec)
_spec.loader.exec_module(_c03)

UNITS = []
for _u in _c03.UNITS:
    if _u["name"].startswith("PoolList.") or _u["name"].startswith("Array."):
        _d = dict(_u)
        _d["prop"] = "C04"
        UNITS.append(_d)
TRUSTED = _c03.TRUSTED
ASSUMPTIONS = [
    "PoolList<T> and Array<T> only, with an element class that counts constructions / destructions in ghost state (the class is named `T` so that goto-cc "
    "resolves the pseudo-destructor calls `->~T()`); List, HashMap, HashSet, PoolMap, Map, MultiMap: NOT decided",
    "PoolList: step contracts over a symbolic neighbourhood (append(): exactly one construction, in place, at the returned address; every remove flavour: exactly one "
    "destruction at the element's address; swap: none); clear() bounded (<= 2 elements); ~PoolList not covered; append(a, ...) overloads are member templates goto-cc cannot instantiate",
    "Array: bounded stand-ins -- ONE real operation on a hand-built array (raw storage of capacity 3, <= 3 live elements of symbolic value; the Array object itself in raw memory so that "
    "~Array() is never instantiated): live elements == size() afterwards, released storage never read, argument that is the array / one of its elements behaves as if copied first; "
    "the elements of the hand-built array count as constructed (g_live starts at n); reserve alone, copy construction, find, swap, destruction, histories: not covered",
]
EXPLANATION = ("Element lifetimes of PoolList (proof, per step) against ghost construction / destruction counters; "
               "single Array operations (bounded) with a live-element counter; found and fixed: Array::append(a[i]) / resize(n, a[i]) use-after-free, Array self-assignment.")
