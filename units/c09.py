"""C09 -- shared payloads released exactly once (handle histories; schedules are not decided)."""
SRCS = ["harness/refcount.cpp", "contracts/refcount.c"]
PT = "RefCount::Ptr<tag-Node>"
CREF = "ref_struct_tag(identifier=RefCount::tag-Ptr<tag-Node>|#constant=1_1)"
REF = "ref_struct_tag(identifier=RefCount::tag-Ptr<tag-Node>)"


def U(name, entry, enforce=None, reach=(), **kw):
    d = dict(name="RefCount." + name, prop="C09", entry=entry, srcs=SRCS, enforce=enforce, replace=[],
             kind="proof", tier="quick", reach=list(reach), timeout=600, no_native=True,
             funcs=[enforce[0].replace("w_Ptr_", PT + "::")] if enforce else [], min_obligations=1)
    d.update(kw)
    return d


UNITS = [
    U("layout", "h_layout"),
    U("Ptr.ctor_default", "h_ctor_default", None, ["ctor_default.return"], funcs=[PT + "::Ptr()"]),
    U("Ptr.ctor_copy", "h_ctor_copy", None, ["ctor_copy.shared"], funcs=[PT + "::Ptr(const Ptr&)"]),
    U("Ptr.dtor", "h_dtor", ("w_Ptr_dtor", None), ["dtor.last", "dtor.shared"]),
    U("Ptr.assign", "h_assign", ("w_Ptr_assign", None),
      ["assign.release", "assign.self", "assign.retarget"]),
    U("Ptr.assign_raw", "h_assign_raw", ("w_Ptr_assign_raw", None),
      ["assign_raw.release", "assign_raw.same"]),
    U("Ptr.swap", "h_swap", ("w_Ptr_swap", None), ["swap.different"]),
]
# the String clauses of C09 (count == handles, block released exactly when last, never written while shared)
# are the ledger parts of C06's contracts: the release-relevant units are run under C09 as well
import importlib.util as _ilu, os as _os
_sp = _ilu.spec_from_file_location("units_c06_for_c09", _os.path.join(_os.path.dirname(__file__), "c06.py"))
_c06 = _ilu.module_from_spec(_sp)
_sp.loader.exec_module(_c06)
for _u in _c06.UNITS:
    if _u["name"] in ("String.layout", "String.ctor_copy", "String.dtor", "String.assign_op", "String.assign_op@self", "String.clear",
                      "String.attach", "String.resize", "String.append_char"):
        _d = dict(_u)
        _d["prop"] = "C09"
        UNITS.append(_d)

TRUSTED = ["cbmc 6.11.0 / goto-instrument DFCC / CaDiCaL", "goto-cc C++ front end; RefCount.hpp without its member templates (compat rule R6)",
           "dep/nstd/Atomic.hpp: increment/decrement modelled as sequentially atomic ++/--"]
ASSUMPTIONS = [
    "SCHEDULES ARE NOT DECIDED: contracts are sequential; Atomic::increment/decrement are assumed atomic (dep/nstd/Atomic.hpp seam), "
    "the property's interleaving quantifier is outside this technique",
    "handle histories are covered by induction over handle operations: each operation maps a consistent ledger (count == number of handles, "
    "released iff 0) to a consistent ledger, for two payloads, arbitrary further handles elsewhere, and aliasing self-arguments",
    "Variant payloads: Variant.hpp is outside the front end (see C07); String payloads are covered under C06's reference-count clauses",
    "the template constructor Ptr(D*) and the converting templates are deleted by compat rule R6 and not verified",
    "arguments that live INSIDE the payload being released (p = p->next) are not covered: goto-cc does not run member destructors on delete, so that history cannot be modelled faithfully (the defect of this kind was found by reading and fixed, see known_findings.txt)",
]
EXPLANATION = "Contracts on every non-template member of RefCount::Ptr against a ghost ledger; releases checked with __CPROVER_was_freed and CBMC's double-free / use-after-free obligations."
