"""Array<T> bounded units -- PARKED, not registered (units() returns them only with NV_ARRAY=1, which also switches compat rule R12 on).
History: on the tree before fix 8f52efb, Array.append+dtor.bounded and Array.assign+copy.bounded were discharged (164 s / 441 s) and
Array.append@element.bounded reported `dereference failure: deallocated dynamic object in o->v` -- the use-after-free of append(a[j]) that the
native ASan demo confirms.  After the fix (one more copy + placement new on the growth path) every unit exhausts 44 GB of memory
(cbmc reports solver ERROR), so none of them can be registered as a check that exits 0."""
import os
ASRCS = ["harness/array.cpp", "@TREE@/src/Memory.cpp"]


def A(name, entry, reach, prop, **kw):
    d = dict(name="Array." + name, prop=prop, entry=entry, srcs=ASRCS, enforce=None, replace=[], kind="bounded", tier="thorough", heavy=True, cost=1000, mem_gb=44,
             reach=list(reach), timeout=3000, no_native=True, funcs=["Array<T>::" + name.split(".")[0].split("@")[0]], min_obligations=1,
             bound="arrays of at most 5 elements (growth boundary 3 -> 7 inside), values symbolic", cbmc=["--unwind", "8", "--unwinding-assertions"])
    d.update(kw)
    return d


def units(prop):
    if not os.environ.get("NV_ARRAY"):
        return []
    # element count symbolic (<= 3..5; the growth boundary 3 -> 7 is inside); heavy: one at a time
    return [
        A("append+dtor.bounded", "h_b_append", ["b_append.grown"], prop),
        A("append@element.bounded", "h_b_append_element", ["b_append_element.grows", "b_append_element.fits"], prop),
        A("resize@element.bounded", "h_b_append_element", ["b_append_element.grows", "b_append_element.fits"], prop, defs=["NV_RESIZE"]),
        A("assign+copy.bounded", "h_b_assign", ["b_assign.other"], prop, defs=["NV_ALIAS=0"]),
        A("assign@self.bounded", "h_b_assign", ["b_assign.self"], prop, defs=["NV_ALIAS=1"]),
        A("remove_iterator+clear.bounded", "h_b_remove", ["b_remove.middle"], prop, defs=["NV_HOW=1"]),
        A("remove_index+clear.bounded", "h_b_remove", ["b_remove.middle"], prop, defs=["NV_HOW=0"]),
        A("resize_up+find+swap.bounded", "h_b_resize", ["b_resize.grow_realloc"], prop, defs=["NV_TO=4"]),
    ]
