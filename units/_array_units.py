"""Array<T> bounded units (shared by C03 and C04)."""
ASRCS = ["harness/array.cpp", "@TREE@/src/Memory.cpp"]


def A(name, entry, reach, prop, **kw):
    d = dict(name="Array." + name, prop=prop, entry=entry, srcs=ASRCS, enforce=None, replace=[], kind="bounded", tier="thorough", heavy=True, cost=1000,
             reach=list(reach), timeout=3000, no_native=True, funcs=["Array<T>::" + name.split(".")[0].split("@")[0]], min_obligations=1,
             bound="arrays of at most 4 elements (growth boundary 3 -> 7 inside), values symbolic", cbmc=["--unwind", "7", "--unwinding-assertions"])
    d.update(kw)
    return d


def units(prop):
    out = []
    def add(name, entry, reach, n, extra=(), **kw):
        out.append(A("%s.n%d" % (name, n), entry, reach, prop, defs=["NV_N=%d" % n] + list(extra),
                     bound="exactly %d elements, values symbolic%s" % (n, kw.pop("bnote", "")), **kw))
    add("append+dtor", "h_b_append", ["b_append.grown"], 4, bnote=" (growth 0 -> 3 -> 7)")
    add("append@element", "h_b_append_element", ["b_append_element.grows"], 3, bnote=" (full: the append grows)")
    add("resize@element", "h_b_append_element", ["b_append_element.grows"], 3, ["NV_RESIZE"], bnote=" (full: the resize grows)")
    add("assign+copy", "h_b_assign", ["b_assign.other"], 4, ["NV_ALIAS=0"])
    add("assign@self", "h_b_assign", ["b_assign.self"], 2, ["NV_ALIAS=1"])
    add("remove_iterator+clear", "h_b_remove", ["b_remove.middle"], 4, ["NV_HOW=1"])
    add("remove_index+clear", "h_b_remove", ["b_remove.middle"], 4, ["NV_HOW=0"])
    add("resize_up+find+swap", "h_b_resize", ["b_resize.grow_realloc"], 3, ["NV_TO=4"])
    return out
