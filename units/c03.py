"""C03 -- List / Array / PoolList hold the reference sequence (List: step contracts + bounded whole-list checks)."""
SRCS = ["harness/list.cpp", "contracts/list.c"]
INSERT = "List<tag-Tr>::insert(this|ref_struct_tag(identifier=List<tag-Tr>::tag-Iterator|#constant=1_1)|ref_struct_tag(identifier=tag-Tr|#constant=1_1))"


def U(name, entry, enforce=None, reach=(), **kw):
    d = dict(name="List." + name, prop="C03", entry=entry, srcs=SRCS, enforce=(enforce, None) if enforce else None, replace=[],
             kind="proof", tier="quick", reach=list(reach), timeout=900, no_native=True,
             funcs=["List<T>::" + name.split(".")[0]], min_obligations=1)
    d.update(kw)
    return d


def B(name, entry, reach, **kw):
    kw.setdefault("bound", "lists of at most 3 elements, values symbolic")
    kw.setdefault("cbmc", ["--unwind", "6", "--unwinding-assertions"])
    return U(name, entry, None, reach, kind="bounded", **kw)


UNITS = [
    U("layout", "h_layout"),
    U("insert", "h_insert", "w_List_insert", ["insert.reuse", "insert.new_block"], cbmc=["--unwind", "6", "--unwinding-assertions"]),
    U("remove", "h_remove", "w_List_remove", ["remove.middle", "remove.only"]),
    U("removeFront", "h_removeFront", "w_List_removeFront", ["removeFront.more", "removeFront.only"]),
    U("removeBack", "h_removeBack", "w_List_removeBack", ["removeBack.more", "removeBack.only"]),
    U("swap", "h_swap", "w_List_swap", ["swap.empty_with_full", "swap.full_with_full"]),
    B("copy+dtor.bounded", "h_b_copy", ["b_copy.return"]),
    B("assign.bounded", "h_b_assign", ["b_assign.other"], defs=["NV_ALIAS=0", "NV_BK=1"], bound="lists of at most 1 element, values symbolic", timeout=3000),
    B("assign@self.bounded", "h_b_assign", ["b_assign.self"], defs=["NV_ALIAS=1", "NV_BK=1"], bound="list of at most 1 element assigned to itself", timeout=3000),
    B("sort.2elements", "h_b_sortn", ["b_sortn.return"], defs=["NV_SORTN=2"], bound="exactly 2 elements, values symbolic",
      cbmc=["--unwind", "4", "--unwinding-assertions"], timeout=900),
    B("clear+find+eq.bounded", "h_b_clear_find_eq", ["b_clear_find_eq.return"]),
    B("append_list.bounded", "h_b_append_list", ["b_append_list.return"]),
]
# PoolList<T>: same step-contract scheme; the element lives behind the node header and is constructed in place
PSRCS = ["harness/poollist.cpp", "contracts/poollist.c"]


def P(name, entry, enforce=None, reach=(), **kw):
    d = U(name, entry, enforce, reach, srcs=PSRCS, funcs=["PoolList<T>::" + name.split(".")[0]], **kw)
    d["name"] = "PoolList." + name
    return d


RM = ["remove.middle", "remove.only"]
UNITS += [
    P("layout", "h_layout"),
    P("append", "h_append", "w_PL_append", ["append.reuse", "append.new_block"], cbmc=["--unwind", "6", "--unwinding-assertions"]),
    P("remove", "h_remove", "w_PL_remove", RM),
    P("removeFront", "h_remove", "w_PL_removeFront", ["remove.only", "remove.first"], defs=["NV_RM_MODE=1"]),
    P("removeBack", "h_remove", "w_PL_removeBack", ["remove.only", "remove.last"], defs=["NV_RM_MODE=2"]),
    P("remove_value", "h_remove", "w_PL_removeValue", RM, defs=["NV_RM_MODE=3"]),
    P("swap", "h_swap", "w_PL_swap", ["swap.empty_with_full", "swap.full_with_full"]),
    P("clear.bounded", "h_b_clear", "w_PL_clear", ["b_clear.two", "b_clear.empty"], kind="bounded", bound="list of at most 2 elements",
      cbmc=["--unwind", "4", "--unwinding-assertions"]),
]
import importlib.util as _ilu, os as _os
_sp = _ilu.spec_from_file_location("units_array", _os.path.join(_os.path.dirname(__file__), "_array_units.py"))
_arr = _ilu.module_from_spec(_sp)
_sp.loader.exec_module(_arr)
UNITS += _arr.units("C03")
# Array<T>: one operation on a hand-built array (capacity 3, <= 3 live elements): bounded stand-ins
SSRCS = ["harness/array_step.cpp", "@TREE@/src/Memory.cpp"]


def S(name, entry, reach, **kw):
    d = U(name, entry, None, reach, srcs=SSRCS, funcs=["Array<T>::" + name.split(".")[0]], kind="bounded",
          bound="one operation on an array of capacity 3 with at most 3 elements (values symbolic; growth 3 -> 7 inside)",
          cbmc=["--unwind", "9", "--unwinding-assertions"], timeout=1800, **kw)
    d["name"] = "Array." + name
    return d


UNITS += [
    S("append.step", "h_s_append", ["s_append.own_element_grows", "s_append.fits"]),
    # (a fixed `self` flag makes cbmc exhaust 24 GB; the symbolic one finishes in ~14 min: thorough tier)
    S("append_array.step", "h_s_append_array", ["s_append_array.self_grows", "s_append_array.fits"], tier="thorough", heavy=True, mem_gb=44),
    S("assign.step", "h_s_assign", ["s_assign.self", "s_assign.other"]),
    S("remove.step", "h_s_remove", ["s_remove.middle"]),
    S("resize+clear.step", "h_s_resize", ["s_resize.own_element_grows", "s_resize.shrink"]),
]
TRUSTED = ["cbmc 6.11.0 / goto-instrument DFCC / CaDiCaL", "goto-cc C++ front end; List.hpp with compat rule R1"]
ASSUMPTIONS = [
    "List: step contracts + bounded whole-list units.  PoolList: step contracts for append() (default-constructed element; the argument-taking overloads are member templates goto-cc cannot instantiate), remove(iterator), remove(const T&), removeFront, removeBack, swap over a symbolic neighbourhood; clear() is a bounded stand-in (<= 2 elements); destruction not covered.  Array: bounded stand-ins, ONE real operation on a hand-built array of capacity 3 with <= 3 elements (growth 3 -> 7 inside): append(value / a[j]), operator= (incl. self), remove(index / iterator), resize (incl. resize(n, a[j])) + clear in the quick tier, append(array) (incl. self) in the thorough tier; reserve alone, copy construction, find, swap, destruction and histories are not covered (the whole-history units of units/_array_units.py are parked: they exhaust memory)",
    "step contracts (insert, remove, swap) hold for ANY list: the neighbourhood (position, predecessor, free item, sentinel) is symbolic, "
    "the rest of the list is unconstrained; sequence semantics follows from the relinking postconditions by induction over operations (paper)",
    "operations that walk the whole list: copy, clear, find, ==, !=, append(list), destruction are BOUNDED stand-ins (<= 3 elements) and not counted as proved; "
    "operator= (<= 1 element) is a bounded stand-in too; List::sort is checked on a hand-built list of exactly 2 elements only (3 elements: cbmc aborts); self-assignment is checked for lists of at most 1 element",
    "List element construction / destruction counts (C04) are not checked: goto-cc does not run member destructors in explicit destructor calls; PoolList / Array counts are (element class named T)",
]
EXPLANATION = ("List::insert / remove / swap are verified against relinking contracts with exact frames over symbolic neighbourhoods; "
               "whole-list operations are checked on bounded lists against a reference sequence; PoolList step contracts; Array single-operation bounded units.")
