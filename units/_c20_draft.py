"""C20 -- option parsing part: Process::Arguments::read + the C-string scanners it uses."""
SRCS = ["harness/args.cpp", "contracts/args.c"]
LEN = "String::length(ptr_const_char)"
FIND = "String::find(ptr_const_char|char)"
CMPN = "String::compare(ptr_const_char|ptr_const_char|unsigned_long_int)"


def U(name, entry, enforce=None, reach=(), **kw):
    d = dict(name="Args." + name, prop="C20", entry=entry, srcs=SRCS, enforce=enforce, replace=[], kind="proof", tier="quick",
             reach=list(reach), timeout=900, no_native=True, funcs=[enforce[0].split("(")[0]] if enforce and "(" in enforce[0] else [], min_obligations=1)
    d.update(kw)
    return d


UNITS = [
    U("String.length_cstr", "h_length", (LEN, "c_String_length"), ["length.return"], loops="contracts/args_length.loops.json"),
    U("String.find_cstr", "h_find", (FIND, "c_String_find"), ["find.hit"], loops="contracts/args_find.loops.json"),
    U("String.compare_cstr_n", "h_compare", (CMPN, "c_String_compare_n"), ["compare.equal"], loops="contracts/args_compare.loops.json"),
    U("Arguments.read", "h_read", ("w_args_read", None), ["read.attached", "read.end"],
      replace=[(LEN, "r_String_length"), (FIND, "r_String_find"),
               ("String::attach(this|ptr_const_char|unsigned_long_int)", "r_String_attach"), ("String::clear(this)", "r_String_clear"),
               ("String::append(this|const_char)", "r_String_append_char")],
      cbmc=["--unwind", "8", "--unwinding-assertions"], object_bits=11, timeout=2400, defs=["NV_ARGC=2", "NV_NOPT=2", "NV_NAMEMAX=5", "NV_MAXSZ=40ul"], kind="bounded", funcs=["Process::Arguments::read", "Process::Arguments::nextChar"],
      bound="at most 2 remaining argv strings, 2 option table entries, option names of at most 5 characters, argument strings of at most 40 bytes (symbolic lengths and contents)"),
]
TRUSTED = ["cbmc 6.11.0 / goto-instrument DFCC / CaDiCaL", "goto-cc C++ front end; function slice of src/Process.cpp (Arguments::nextChar, read); compat rules R2-R4, R11"]
ASSUMPTIONS = [
    "ONLY the option parser is covered, and only its memory safety (the cursor stays inside an argument string, every scan stops at a terminator inside "
    "the object, every range handed to the output String is readable); agreement with the getopt_long conventions is NOT checked",
    "process launching, argument quoting, environment, pipes, exit codes: kernel behaviour, no contract-expressible oracle -- not decided",
    "one read() call is verified as an inductive step over the parser state (wf_args); whole command lines follow by induction over calls (paper)",
    "argv strings and option names are C strings (each object ends with a NUL byte); at most 2 remaining argv entries, 2 options, option names <= 5 characters (loops over them are unwound; String::compare(s1,s2,len) is inlined)",
    "the scanners are replaced inside read() by ghost-free restatements (r_String_*) of the contracts enforced on them (c_String_*); the implication between the two forms is by inspection",
]
EXPLANATION = "Loop contracts on String's C-string scanners; Arguments::read verified as an inductive step with the scanners and the output String replaced by contracts."
