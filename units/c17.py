"""C17 -- SHA-256 / HMAC-SHA-256."""
SRCS = ["harness/sha256.cpp", "contracts/sha256.c", "contracts/memory.c"]
TRANSFORM = "Sha256::Private::Transform(ptr_unsigned_int|ptr_const_unsigned_int)"
WBB = "Sha256::Private::WriteByteBlock(ptr_struct_tag(identifier=tag-Sha256))"
RESET = "Sha256::reset(this)"
UPDATE = "Sha256::update(this|ptr_const_unsigned_char|unsigned_long_int)"
FINALIZE = "Sha256::finalize(this|ptr_unsigned_char)"


def U(name, entry, enforce=None, replace=(), reach=(), **kw):
    d = dict(name="Sha256." + name, prop="C17", entry=entry, srcs=SRCS, enforce=enforce, replace=list(replace),
             kind="proof", tier="quick", reach=list(reach), timeout=1800, native=["src/Memory.cpp"],
             funcs=[enforce[0].split("(")[0]] if enforce else [], min_obligations=1)
    d.update(kw)
    return d


UNITS = [
    U("layout", "h_layout"),
    U("spec_anchor", "h_spec_anchor", reach=["spec_anchor.return"], cbmc=["--unwind", "130"], srcs=["harness/sha256_anchor.c"], no_native=True),
    U("Transform", "h_transform", (TRANSFORM, "c_Transform"), reach=["transform.return"],
      loops="contracts/sha256_transform.loops.json", min_obligations=30, solver="cadical", cost=1000, defs=["NV_TABLES_ROWWISE"],
      split=[r"loop_invariant", r"loop_decreases", r"precondition", r"postcondition"]),
    U("WriteByteBlock", "h_wbb", (WBB, "c_WriteByteBlock"), replace=[(TRANSFORM, "c_Transform")], reach=["wbb.return"]),
    U("Transform.frame", "h_transform_frame", (TRANSFORM, "c_Transform_frame"), reach=["transform_frame.return"]),
    U("WriteByteBlock.frame", "h_wbb_frame", (WBB, "c_WriteByteBlock_frame"), replace=[(TRANSFORM, "c_Transform_frame")],
      reach=["wbb_frame.return"]),
    U("reset", "h_reset", (RESET, "c_reset"), reach=["reset.return"]),
    U("ctor", "h_ctor", None, reach=["ctor.return"], funcs=["Sha256::Sha256"]),
    U("update.any_size", "h_update_any", (UPDATE, "c_update_any"), replace=[(WBB, "c_WriteByteBlock_frame")],
      loops="contracts/sha256_update.loops.json", reach=["update_any.return"]),
    U("update.one_byte", "h_update_step", (UPDATE, "c_update_step"), replace=[(WBB, "c_WriteByteBlock")],
      reach=["update_step.block", "update_step.buffered"], cbmc=["--unwindset", UPDATE + "_wrapped_for_contract_checking.0:3", "--unwinding-assertions"]),
    U("finalize", "h_finalize", (FINALIZE, "c_finalize"), replace=[(WBB, "c_WriteByteBlock")],
      reach=["finalize.two_blocks", "finalize.one_block"], loops="contracts/sha256_finalize.loops.json", cost=900,
      exclude=[(r"^finalize\.assigns @finalize: Check that digest is assignable$",
                "DFCC artefact: 'digest' is a local pointer variable of finalize declared after the loop that carries the "
                "loop contract and is not registered in the write set; the check concerns the assignment digest++ to the "
                "local itself -- the writes THROUGH it (*digest) are separate obligations and are discharged")],
      split=[r"loop_invariant", r"loop_decreases", r"precondition", r"postcondition"]),
]
TRUSTED = ["cbmc 6.11.0 / goto-instrument DFCC / minisat", "goto-cc C++ front end translation of src/Crypto/Sha256.cpp",
           "specs/fips180.h as rendering of FIPS 180-4 (anchored on two standard test vectors in unit spec_anchor)"]
ASSUMPTIONS = []
EXPLANATION = ""
