"""C17 -- SHA-256 / HMAC-SHA-256."""
SRCS = ["harness/sha256.cpp", "contracts/sha256.c", "contracts/memory.c", "@TREE@/src/Memory.cpp"]
TRANSFORM = "Sha256::Private::Transform(ptr_unsigned_int|ptr_const_unsigned_int)"
WBB = "Sha256::Private::WriteByteBlock(ptr_struct_tag(identifier=tag-Sha256))"
RESET = "Sha256::reset(this)"
UPDATE = "Sha256::update(this|ptr_const_unsigned_char|unsigned_long_int)"
FINALIZE = "Sha256::finalize(this|ptr_unsigned_char)"


def U(name, entry, enforce=None, replace=(), reach=(), **kw):
    d = dict(name="Sha256." + name, prop="C17", entry=entry, srcs=SRCS, enforce=enforce, replace=list(replace),
             kind="proof", tier="quick", reach=list(reach), timeout=3600, native=["src/Memory.cpp"],
             funcs=[enforce[0].split("(")[0]] if enforce else [], min_obligations=1)
    d.update(kw)
    return d


HMAC = "Sha256::hmac(ptr_const_unsigned_char|unsigned_long_int|ptr_const_unsigned_char|unsigned_long_int|ptr_unsigned_char)"

QUICK_GLUE = {(0, 0), (55, 27), (56, 1), (64, 10), (119, 59)}

UNITS = [
    U("layout", "h_layout"),
    U("spec_anchor", "h_spec_anchor", reach=["spec_anchor.return"], cbmc=["--unwind", "130"], srcs=["harness/sha256_anchor.c"], no_native=True),
    U("Transform", "h_transform", (TRANSFORM, "c_Transform"), reach=["transform.return"],
      loops="contracts/sha256_transform.loops.json", min_obligations=30, solver="cadical", cost=1000, defs=["NV_TABLES_ROWWISE"],
      split=[r"loop_invariant", r"loop_decreases", r"precondition", r"postcondition"]),
    U("WriteByteBlock", "h_wbb", (WBB, "c_WriteByteBlock"), replace=[(TRANSFORM, "c_Transform")], reach=["wbb.return"]),
    U("Transform.frame", "h_transform_frame", (TRANSFORM, "c_Transform_frame"), reach=["transform_frame.return"]),
    U("WriteByteBlock.frame", "h_wbb_frame", (WBB, "c_WriteByteBlock_frame"), replace=[(TRANSFORM, "c_Transform_frame")],
      reach=["wbb_frame.return"]),
    U("reset", "h_reset", (RESET, "c_reset"), reach=["reset.return"]),
    U("ctor", "h_ctor", None, reach=["ctor.return"], funcs=["Sha256::Sha256"]),
    U("update.any_size", "h_update_any", (UPDATE, "c_update_any"), replace=[(WBB, "c_WriteByteBlock_frame")],
      loops="contracts/sha256_update.loops.json", reach=["update_any.return"]),
    U("update.one_byte", "h_update_step", (UPDATE, "c_update_step"), replace=[(WBB, "c_WriteByteBlock")],
      reach=["update_step.block", "update_step.buffered"], cbmc=["--unwindset", UPDATE + "_wrapped_for_contract_checking.0:3", "--unwinding-assertions"]),
    U("finalize", "h_finalize", (FINALIZE, "c_finalize"), replace=[(WBB, "c_WriteByteBlock")],
      reach=["finalize.two_blocks", "finalize.one_block"], loops="contracts/sha256_finalize.loops.json", cost=900,
      exclude=[(r"^finalize\.assigns @finalize: Check that digest is assignable$",
                "DFCC artefact: 'digest' is a local pointer variable of finalize declared after the loop that carries the "
                "loop contract and is not registered in the write set; the check concerns the assignment digest++ to the "
                "local itself -- the writes THROUGH it (*digest) are separate obligations and are discharged")],
      split=[r"loop_invariant", r"loop_decreases", r"precondition", r"postcondition"]),
    U("hmac", "h_hmac", None, replace=[(UPDATE, "c_update_abstract"), (FINALIZE, "c_finalize_abstract")],
      reach=["hmac.long_key", "hmac.block_key", "hmac.short_key"], funcs=["Sha256::hmac"],
      ),
] + [
    U("hash_glue.len%d.split%d" % (n, sp), "h_hash_glue", None, replace=[(TRANSFORM, "c_Transform")], reach=["hash_glue.return"],
      defs=["NV_LEN=%d" % n, "NV_SP=%d" % sp], kind="bounded",
      bound="message length == %d bytes, chunked %d + %d, content symbolic" % (n, sp, n - sp),
      funcs=["Sha256::update", "Sha256::finalize"], tier="quick" if (n, sp) in QUICK_GLUE else "thorough")
    for n in (0, 1, 55, 56, 63, 64, 119) for sp in (sorted(set([0, 1 if n else 0, n // 2, n])) if n != 64 else [10])
]
UNITS += [
    U("finalize.count_%s" % label, "h_finalize", (FINALIZE, "c_finalize"), replace=[(WBB, "c_WriteByteBlock")],
      reach=["finalize.two_blocks" if (c & 63) >= 56 else "finalize.one_block"], defs=["NV_CNT=%dul" % c], kind="bounded",
      bound="count == %d (state and buffer content symbolic); no loop contract, independent of finalize's local names" % c,
      tier="thorough" if label in ("55", "56") else "quick")
    for label, c in (("0", 0), ("55", 55), ("56", 56), ("63", 63), ("2p29", (1 << 29) + 5), ("2p32", (1 << 32) - 1), ("2p61", (1 << 61) + 57))
]
TRUSTED = [
    "cbmc 6.11.0 / goto-instrument DFCC contract + loop-contract instrumentation / CaDiCaL",
    "goto-cc C++ front end translation of src/Crypto/Sha256.cpp and include/nstd/Crypto/Sha256.hpp (compat rule R5 in hmac only)",
    "specs/fips180.h as rendering of FIPS 180-4 (anchored on the standard's test vectors in unit spec_anchor)",
    "Memory::copy/zero = CBMC's memcpy/memset models (hmac key preparation)",
]
ASSUMPTIONS = [
    "unsigned 32/64-bit wrap-around is the intended arithmetic (FIPS 180-4 addition modulo 2^32, length modulo 2^64)",
    "update(data, n) for arbitrary n: proved are memory safety, frame, termination and count bookkeeping (loop contract) and, separately, "
    "that absorbing ONE byte equals the FIPS absorb step for every object state; that n bytes behave as n single-byte steps "
    "(same loop body) and hence chunking independence is the induction over the loop, argued on paper, and cross-checked by the bounded hash_glue units",
    "callers of the compression function (WriteByteBlock/update/finalize units) treat its result as an uninterpreted function value "
    "(sound for every compression function); the link to FIPS 180-4 is unit Transform",
    "hmac(): update/finalize are replaced by the abstract-hash interface contract (append / hash-and-reset); that the real object "
    "implements this interface is what the other units establish per call, the composition over calls is by induction on paper",
    "DFCC registers no write-set entry for finalize's local 'digest' declared after the contract loop: 4 obligations on the local variable itself are excluded (listed under unit_exclusions)",
    "sizes <= 0x7ffffff0 where buffers are allocated by the harness",
]
EXPLANATION = ("Sha256::Private::Transform is proved equal to the FIPS 180-4 compression function for all 2^768 (state, block) pairs by "
               "loop contracts that follow ghost tables of the spec's working variables round by round; WriteByteBlock, update, finalize, "
               "reset and hmac are proved against contracts stated with the spec's padding/parsing functions, callee contracts replacing "
               "callee bodies.")
