"""C06 -- String value semantics (and the String clauses of C09)."""
SRCS = ["harness/string.cpp", "contracts/string.c", "contracts/memory.c"]
MC = ("Memory::copy(ptr_void|ptr_const_void|unsigned_long_int)", "c_Memory_copy")
MM = ("Memory::move(ptr_void|ptr_const_void|unsigned_long_int)", "c_Memory_move")
MCMP = ("Memory::compare(ptr_const_void|ptr_const_void|unsigned_long_int)", "c_Memory_compare")
CREF = "ref_struct_tag(identifier=tag-String|#constant=1_1)"


def U(name, fn, contract, reach=(), **kw):
    d = dict(name="String." + name, prop="C06", entry="h_" + name.split("@")[0], srcs=SRCS,
             enforce=(fn, contract) if fn else None, replace=[MC, MM, MCMP], kind="proof", tier="quick",
             reach=list(reach), timeout=3600, no_native=True, funcs=[fn.split("(")[0]] if fn else [], min_obligations=1)
    d.update(kw)
    return d


UNITS = [
    U("layout", None, None, replace=[]),
    U("ctor_default", None, None, ["ctor_default.return"], funcs=["String::String()"]),
    U("ctor_copy", None, None, ["ctor_copy.share", "ctor_copy.deep"], funcs=["String::String(const String&)"]),
    U("ctor_buf", "String::String(this|ptr_const_char|unsigned_long_int)", "c_String_ctor_buf", ["ctor_buf.return"]),
    U("ctor_cap", "String::String(this|unsigned_long_int)", "c_String_ctor_cap", ["ctor_cap.return"]),
    U("ctor_fill", "String::String(this|unsigned_long_int|char)", "c_String_ctor_fill", ["ctor_fill.return"],
      loops="contracts/string_ctorfill.loops.json"),
    U("dtor", "w_String_dtor", None, ["dtor.last", "dtor.shared"], funcs=["String::~String"]),
    U("assign_op", "String::operator=(this|%s)" % CREF, "c_String_assign_op", ["assign_op.share", "assign_op.deep"], defs=["NV_ALIAS=0"]),
    U("assign_op@self", "String::operator=(this|%s)" % CREF, "c_String_assign_op", ["assign_op.self"], defs=["NV_ALIAS=1"]),
    U("clear", "String::clear(this)", "c_String_clear", ["clear.shared", "clear.inplace"]),
    U("attach", "String::attach(this|ptr_const_char|unsigned_long_int)", "c_String_attach", ["attach.return"]),
    U("resize", "String::resize(this|unsigned_long_int)", "c_String_resize", ["resize.inplace", "resize.unshare", "resize.from_attached"]),
    U("reserve", "String::reserve(this|unsigned_long_int)", "c_String_reserve", ["reserve.return"]),
    U("append_buf", "String::append(this|ptr_const_char|unsigned_long_int)", "c_String_append_buf",
      ["append_buf.inplace", "append_buf.unshare", "append_buf.from_attached"], cost=100),
    U("append_char", "String::append(this|const_char)", "c_String_append_char", ["append_char.return"]),
    U("append_str", "String::append(this|%s)" % CREF, "c_String_append_str", ["append_str.other"], defs=["NV_ALIAS=0"], cost=100),
    U("append_str@self", "String::append(this|%s)" % CREF, "c_String_append_str", ["append_str.self"], defs=["NV_ALIAS=1"], cost=100),
    U("prepend_buf", "String::prepend(this|ptr_const_char|unsigned_long_int)", "c_String_prepend_buf", ["prepend_buf.return"], cost=100),
    U("prepend_str", "String::prepend(this|%s)" % CREF, "c_String_prepend_str", ["prepend_str.other"], defs=["NV_ALIAS=0"], cost=100, tier="thorough"),
    U("prepend_str@self", "String::prepend(this|%s)" % CREF, "c_String_prepend_str", ["prepend_str.self"], defs=["NV_ALIAS=1"], cost=100),
    U("eq", None, None, ["eq.true", "eq.false_content"], funcs=["String::operator==", "String::operator!="]),
    U("find_char", "String::find($constthis|char)", "c_String_find_char", ["find_char.hit", "find_char.miss"],
      loops="contracts/string_find.loops.json"),
    U("compare_str", "String::compare($constthis|%s)" % CREF, "c_String_compare_str", ["compare_str.attached"],
      loops="contracts/string_compare.loops.json"),
    U("affix", None, None, ["affix.prefix", "affix.suffix"], funcs=["String::startsWith", "String::endsWith"]),
    # static C-string scanners (used by Process::Arguments): loop contracts, any string length
    U("length_cstr", "String::length(ptr_const_char)", "c_String_length", ["length.return"], entry="h_length",
      srcs=["harness/args.cpp", "contracts/args.c"], replace=[], loops="contracts/args_length.loops.json"),
    U("find_cstr", "String::find(ptr_const_char|char)", "c_String_find", ["find.hit"], entry="h_find",
      srcs=["harness/args.cpp", "contracts/args.c"], replace=[], loops="contracts/args_find.loops.json"),
    U("compare_cstr_n", "String::compare(ptr_const_char|ptr_const_char|unsigned_long_int)", "c_String_compare_n", ["compare.equal"], entry="h_compare",
      srcs=["harness/args.cpp", "contracts/args.c"], replace=[], loops="contracts/args_compare.loops.json"),
    U("cstr", None, None, ["cstr.attached"], funcs=["String::operator const char*() const"]),
    # case mapping / replace(char, char) against the reference byte string
    U("casemap_table", None, None, ["casemap_table.letter"], defs=["NV_CASEMAP"], replace=[], srcs=SRCS + ["@TREE@/src/Memory.cpp"],
      funcs=["String::toLowerCase(char)", "String::toUpperCase(char)", "String::lowerCaseMap", "String::upperCaseMap"]),
] + [
    U(nm + ".bounded", None, None, ["b_bytemap.after_nul", "b_bytemap.mapped"], entry="h_b_bytemap", defs=["NV_CASEMAP", "NV_MAPOP=%d" % op], kind="bounded", bound="strings of at most 3 bytes (any byte values, NUL included)",
      cbmc=["--unwind", "6", "--unwinding-assertions"], funcs=[fn])
    for (nm, op, fn) in (("toLowerCase", 0, "String::toLowerCase()"), ("toUpperCase", 1, "String::toUpperCase()"), ("replace_char", 2, "String::replace(char, char)"))
]
TRUSTED = ["cbmc 6.11.0 / goto-instrument DFCC / CaDiCaL", "goto-cc C++ front end; String.hpp member subset (compat rules R2-R4)",
           "assumed contracts of Memory::copy/move/compare (libc)", "dep/nstd/Atomic.hpp: sequentially atomic increment/decrement"]
ASSUMPTIONS = [
    "all lengths / capacities <= 0x7ffffff0 (goto-cc truncates new[] counts to 32 bits)",
    "String::emptyData is in its constructed state (ref 0, len 0) -- DFCC havocs statics; no String member may write a payload with ref == 0 (frames)",
    "histories = induction over operations on (a, b): a is the operand, b a second handle that shares a's block whenever the count exceeds 1, "
    "so every illegal in-place write is visible through b; further handles are a symbolic count",
    "str[len] == 0 is NOT a representation invariant of String (resize on an empty string leaves the end unterminated; the const char* conversion "
    "repairs lazily): the terminator is proved as postcondition of operator const char*() const",
    "covered members: constructors (default, copy, buffer, capacity), destructor, operator=, clear, attach, resize, reserve, append x3, prepend x2, "
    "operator const char*() const, ==, !=, find(char), startsWith, endsWith, and the static scanners length(const char*) (index of the first NUL), find(const char*, char) (first occurrence before the NUL), compare(s1, s2, len) (memory safety only).  replace(char,char), toLowerCase(), toUpperCase() are BOUNDED stand-ins (strings of <= 3 arbitrary bytes: byte k of the result == table[byte k] / needle map, copy unaffected) next to the loop-free proof that the two case tables equal the ASCII maps for all 256 byte values; the unbounded loop-contract unit for replace(char,char) (harness h_replace_char + contracts/string_replace.loops.json) is parked: cbmc runs out of memory in propositional reduction (symbolic-index writes into a 2^31-byte object inside a havocked loop).  NOT covered: findLast(char) (its loop ends by comparing the one-before-start pointer `p >= start`; cbmc compares pointer offsets unsigned, so the loop does not terminate in the model -- the pattern is UB in the letter of the standard and works on flat memory; harness h_findLast_char kept but not registered), substr (goto-cc destroys the by-value return temporary before the caller copies it: spurious use-after-free; harness h_substr kept but not registered), compareIgnoreCase, replace(String, String), trim, token/split/join, libc-based find overloads, "
    "printf/scanf family (variadic libc), toBool/fromBool and the char(&)[N] templates (deleted by compat rule R2)",
    "Atomic::increment/decrement sequentially atomic (seam); thread interleavings of C09 not decided",
]
EXPLANATION = ("Every covered String member is verified against a contract: representation invariant, value == reference byte string "
               "(ghost index + watched byte through the Memory::copy contract), every other handle unaffected, old heap block "
               "released exactly when the last handle leaves (was_freed), frame excludes literals / attached memory / shared blocks.")
