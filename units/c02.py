"""C02 -- hash containers (HashMap only): step contracts + bounded history."""
SRCS = ["harness/hashmap.cpp", "contracts/hashmap.c", "contracts/memory.c", "@TREE@/src/Memory.cpp"]


def U(uname, entry, enforce=None, reach=(), **kw):
    name = uname
    d = dict(name="HashMap." + name, prop="C02", entry=entry, srcs=SRCS, enforce=(enforce, None) if enforce else None, replace=[],
             kind="proof", tier="quick", reach=list(reach), timeout=900, no_native=True,
             funcs=["HashMap<K,V>::" + name.split(".")[0].split("@")[0]], min_obligations=1)
    d.update(kw)
    return d


UNITS = [U("layout", "h_layout"), U("layout", "h_layout", defs=["NV_HASHSET"], name="HashSet.layout", funcs=[]),
         U("layout", "h_layout", defs=["NV_POOLMAP"], name="PoolMap.layout", funcs=[])]
for kind, cap in (("HashMap", 1), ("HashMap", 3), ("HashSet", 1), ("HashSet", 3), ("PoolMap", 1), ("PoolMap", 3)):
    tag = "@cap%d" % cap
    KD = {"HashSet": ["NV_HASHSET"], "PoolMap": ["NV_POOLMAP"]}.get(kind, [])
    PFX = kind + "."
    UNITS += [
        U("insert" + tag, "h_insert", "w_HashMap_insert", ["insert.collide", "insert.new_block", "insert.existing"],
          defs=["NV_CAP=%d" % cap, "NDEBUG"] + KD, cbmc=["--unwind", "6", "--unwinding-assertions"], name=PFX + "insert" + tag,
          bound="bucket chain of the key's bucket <= 2 nodes (order list and all other buckets arbitrary)"),
        U("remove" + tag, "h_remove", "w_HashMap_remove", ["remove.mid_chain", "remove.only_in_bucket"], defs=["NV_CAP=%d" % cap, "NDEBUG"] + KD, name=PFX + "remove" + tag),
        U("find" + tag, "h_find", "w_HashMap_find", ["find.hit", "find.miss_after_collisions"], defs=["NV_CAP=%d" % cap, "NDEBUG"] + KD, name=PFX + "find" + tag,
          cbmc=["--unwind", "4", "--unwinding-assertions"], bound="bucket chain <= 2 nodes"),
    ]
for kind in ("HashMap", "HashSet", "PoolMap"):
    KD = {"HashSet": ["NV_HASHSET"], "PoolMap": ["NV_POOLMAP"]}.get(kind, [])
    UNITS += [U("swap", "h_swap", "w_HashMap_swap", ["swap.empty_with_full", "swap.full_with_full"], defs=["NV_CAP=1", "NDEBUG"] + KD, name=kind + ".swap")]
    RD = ["NV_CAP=1", "NDEBUG"] + KD
    UNITS += [
        U("removeFront", "h_remove", "w_HashMap_removeFront", ["remove.mid_chain", "remove.only_in_bucket"], defs=RD + ["NV_RM_MODE=1"], name=kind + ".removeFront"),
        U("removeBack", "h_remove", "w_HashMap_removeBack", ["remove.mid_chain", "remove.only_in_bucket"], defs=RD + ["NV_RM_MODE=2"], name=kind + ".removeBack"),
        U("remove_key@cap3", "h_remove_key", "w_HashMap_removeKey", ["remove_key.second_in_chain", "remove_key.absent"], defs=["NV_CAP=3", "NDEBUG"] + KD, name=kind + ".remove_key@cap3",
          cbmc=["--unwind", "4", "--unwinding-assertions"], bound="bucket chain <= 2 nodes"),
    ]
    UNITS += [U("clear.bounded", "h_b_clear", "w_HashMap_clear", ["b_clear.two_colliding", "b_clear.empty"], defs=["NV_CAP=3", "NDEBUG"] + KD, name=kind + ".clear.bounded", kind="bounded",
                bound="order list of at most 2 items (colliding or in two buckets), capacity 3", cbmc=["--unwind", "4", "--unwinding-assertions"])]
    if kind == "PoolMap":
        UNITS += [U("remove_value", "h_remove", "w_PoolMap_removeValue", ["remove.mid_chain", "remove.only_in_bucket"], defs=RD + ["NV_RM_MODE=3"], name="PoolMap.remove_value")]
for kind in ("HashMap", "HashSet"):
    KD = ["NV_HASHSET"] if kind == "HashSet" else []
    UNITS += [
        U("assign@self.bounded", "h_b_assign", None, ["b_assign.self"], defs=["NV_CAP=1", "NDEBUG", "NV_ALIAS=1"] + KD, name=kind + ".assign@self.bounded", kind="bounded",
          bound="table of at most 1 entry assigned to itself", cbmc=["--unwind", "6", "--unwinding-assertions"], timeout=3000),
    ]
TRUSTED = ["cbmc 6.11.0 / goto-instrument DFCC / CaDiCaL", "goto-cc C++ front end; HashMap.hpp with compat rule R1, -DNDEBUG (ASSERT/VERIFY macros off)"]
ASSUMPTIONS = [
    "HashMap<long,long>, HashSet<long> and PoolMap<unsigned long,long> are covered (same harness, -DNV_HASHSET / -DNV_POOLMAP)",
    "insert / find: the bucket chain of the key's bucket has at most 2 nodes (the find loop is unwound, no loop contract over chains of unbounded length); "
    "capacity 1 (every key collides) and 3; order list, free list and other buckets are arbitrary -- these two units are proofs relative to that chain bound",
    "remove(iterator), removeFront(), removeBack(), PoolMap::remove(const V&) (node computed from the element address), swap(other): no bound; remove(key): chain <= 2 nodes, absent key changes nothing (no loop); swap is checked for two distinct tables with symbolic size, capacity, bucket array, free list and first/last items",
    "hash(long) = (usize)value as in Base.hpp",
    "clear(): bounded stand-in, order list of at most 2 items unwound (no list-segment loop invariant)",
    "assignment of a table to itself is checked on tables of at most 1 entry (bounded units; assignment from another table exceeds cbmc's memory); whole-table agreement with a reference insertion-ordered map over operation histories is NOT checked (a bounded harness exists in harness/hashmap.cpp, h_b_history, but cbmc returns solver errors on it); it follows from the step contracts by induction over operations (paper)",
]
EXPLANATION = "Step contracts for HashMap insert/remove/find with exact frames over symbolic neighbourhoods; bounded history check against a reference map."
