// C18 -- Unicode.hpp, String::fromHex, String::fromBase64
#define private public
#include <nstd/Unicode.hpp>
#include <String.codecs.slice.cpp>
#undef private
#include "nvh.h"
#include "rfc3629.h"

static const char* const HEX = "0123456789ABCDEF";
static const char* const ALPHA = "ABCDEFGHIJKLMNOPQRSTUVWXYZabcdefghijklmnopqrstuvwxyz0123456789+/";

// DFCC makes every static object nondeterministic before the harness runs; String::emptyData is
// an immutable sentinel (ref 0, len 0, str -> its own len field) -- the state its constructor
// leaves it in and that no String member may modify (ref == 0 payloads are never written)
#define NV_STRING_STATICS() NV_ASSUME(String::emptyData.ref == 0 && String::emptyData.len == 0 && \
                                      String::emptyData.str == (const char*)&String::emptyData.len)

extern "C" {
usize g_woff, g_woff2, g_cmp_wit, g_cmp_k; // ghosts of contracts/memory.c (unused here)
byte g_out[8];   // bytes appended by Unicode::append (log of String::append(char))
usize g_outn;
byte* g_sbuf;    // storage of the codec functions' result String (contracts/string_iface.c)
usize g_scap, g_slen;

bool uni_append_post(uint32 cp, bool ret)
{
  unsigned char e[4];
  int n = rfc3629_encode(cp, e);
  if(ret != (cp <= 0x10FFFF)) return false;
  if(!ret) return g_outn == 0;
  if(g_outn != (usize)n) return false;
  for(int i = 0; i < 4; i++) if(i < n && g_out[i] != e[i]) return false; // constant bound: n is symbolic
  return true;
}
bool uni_from_post(const char* ch, usize len, uint32 ret)
{
  // ASCII and the empty range are pinned down here; multi-byte values by the inverse law
  if(len == 0) return ret == 0;
  if((unsigned char)ch[0] < 0x80) return ret == (unsigned char)ch[0];
  return true;
}
usize g_fk; // ghost byte index (fromHex loop invariant)
char g_HEX[17]; // "0123456789ABCDEF" (spec table used by the fromHex loop invariant)
bool uni_valid_post(const char* ch, usize len, bool ret)
{
  // a string consisting of ASCII only is valid; a string whose first byte is a continuation
  // byte or 0xF8..0xFF is invalid (further structure: bounded unit)
  if(len > 0 && rfc3629_lead_length((unsigned char)ch[0]) == 0) return !ret;
  if(len > 0 && rfc3629_lead_length((unsigned char)ch[0]) > len) return !ret;
  return true;
}

// -------------------------------------------------------------- length(char)
void h_length()
{
  NV_INPUT(char, c);
  usize r = Unicode::length(c);
  NV_CHECK(r == rfc3629_lead_length((unsigned char)c), "Unicode::length == RFC 3629 lead byte classification");
  NV_REACH("length.return");
}

// -------------------------------------------------------------- append(cp, str)
void h_append()
{
  NV_STRING_STATICS();
  NV_INPUT(uint32, cp);
  String s;
  g_outn = 0;
  bool r = Unicode::append(cp, s);
  NV_POST("Unicode::append == RFC 3629 encoding", uni_append_post(cp, r));
  if(r && g_outn == 4) { NV_REACH("append.four"); }
  if(!r) { NV_REACH("append.reject"); }
}

// -------------------------------------------------------------- append(const uint32* data, size, str): every size
// reads exactly data[0..size), appends element by element (the single-code-point append is replaced
// by a counting contract), result == all elements accepted
usize g_app_calls; bool g_app_all; const uint32* g_ua_data; usize g_ua_size;
bool uni_append_arr_post(bool ret) { return g_app_calls == g_ua_size && ret == g_app_all; }
void h_append_arr()
{
  NV_STRING_STATICS();
  NV_INPUT(usize, n);
  NV_ASSUME(n <= NV_MAXSZ / 4);
  uint32* data = (uint32*)new char[n * 4 + 4];
  String s;
  g_app_calls = 0; g_app_all = true; g_ua_data = data; g_ua_size = n;
  bool r = Unicode::append(data, n, s);
  NV_POST("Unicode::append(data, size, str): one append per element, in bounds", uni_append_arr_post(r));
  NV_REACH("append_arr.return");
  delete[] (char*)data;
}

// -------------------------------------------------------------- inverse law, all code points
void h_inverse()
{
  NV_INPUT(uint32, cp);
  NV_INPUT(usize, extra);
  NV_ASSUME(cp <= 0x10FFFF && extra <= 4);
  unsigned char e[4];
  int n = rfc3629_encode(cp, e);
  char* buf = new char[n + extra]; // exactly the encoding (+ arbitrary following bytes)
  for(int i = 0; i < 4; i++) if(i < n) buf[i] = (char)e[i]; // constant bound: n is symbolic
  uint32 back = Unicode::fromString(buf, n + extra);
  NV_CHECK(back == cp, "fromString(encoding of cp) == cp for every code point up to U+10FFFF");
  NV_CHECK(Unicode::length(buf[0]) == (usize)n, "length(lead byte) == length of the encoding");
  NV_REACH("inverse.return");
  delete[] buf;
}

// -------------------------------------------------------------- fromString: arbitrary bytes, any len
void h_fromString()
{
  NV_INPUT(usize, len);
  NV_ASSUME(len <= NV_MAXSZ);
  char* buf = new char[len];
  uint32 r = Unicode::fromString(buf, len);
  NV_POST("fromString stays inside the given range", uni_from_post(buf, len, r));
  NV_REACH("fromString.return");
  delete[] buf;
}

// -------------------------------------------------------------- isValid: arbitrary bytes, any len
void h_isValid()
{
  NV_INPUT(usize, len);
  NV_ASSUME(len <= NV_MAXSZ);
  char* buf = new char[len];
  bool r = Unicode::isValid(buf, len);
  NV_POST("isValid stays inside the given range", uni_valid_post(buf, len, r));
  NV_REACH("isValid.return");
  delete[] buf;
}

// -------------------------------------------------------------- String::fromHex(data, size)
void h_fromHex()
{
  NV_STRING_STATICS();
  NV_INPUT(usize, size);
  NV_INPUT(usize, k);
  NV_INPUT(byte, v);
  NV_ASSUME(size <= NV_MAXSZ / 2 && k < size);
  byte* data = (byte*)new char[size];
  data[k] = v;
  g_fk = k;
  for(int i = 0; i < 16; i++) g_HEX[i] = HEX[i];
  g_HEX[16] = 0;
  g_sbuf = 0; g_scap = 0; g_slen = 0;
  String r = String::fromHex(data, size);
  NV_CHECK(g_slen == 2 * size, "fromHex: result length == 2 * size");
  NV_CHECK(g_sbuf[2 * k] == HEX[v / 16] && g_sbuf[2 * k + 1] == HEX[v % 16],
           "fromHex: characters 2k, 2k+1 are the upper-case hex digits of byte k");
  NV_REACH("fromHex.return");
  delete[] (char*)data;
}

// -------------------------------------------------------------- String::fromHex, 2 input bytes (bounded, no loop contract:
// independent of fromHex's local names and helper functions)
void h_fromHex_bounded()
{
  NV_STRING_STATICS();
  NV_INPUT_ARR(byte, src, 2);
  g_sbuf = 0; g_scap = 0; g_slen = 0;
  String r = String::fromHex(src, 2);
  bool ok = g_slen == 4;
  for(int i = 0; i < 2; i++) ok = ok && g_sbuf[2 * i] == HEX[src[i] / 16] && g_sbuf[2 * i + 1] == HEX[src[i] % 16];
  NV_CHECK(ok, "fromHex of 2 bytes == their 4 upper-case hex digits");
  NV_REACH("fromHex_bounded.return");
}

// -------------------------------------------------------------- String::fromBase64: arbitrary input
void h_fromBase64_safety()
{
  NV_STRING_STATICS();
  NV_INPUT(usize, inlen);
  NV_ASSUME(inlen <= NV_MAXSZ);
  char* in = new char[inlen + 1];
  in[inlen] = 0;
  String data;
  data.attach(in, inlen);
  g_sbuf = 0; g_scap = 0; g_slen = 0;
  String r = String::fromBase64(data);
  NV_CHECK(g_sbuf == 0 || g_slen <= g_scap, "fromBase64: result length within the reserved buffer");
  NV_REACH("fromBase64_safety.return");
  delete[] in;
}

// -------------------------------------------------------------- String::fromBase64: RFC 4648 round trip (bounded)
#ifndef NV_B64_BYTES
#define NV_B64_BYTES 3
#endif
void h_fromBase64_roundtrip()
{
  NV_STRING_STATICS();
  NV_INPUT_ARR(byte, src, NV_B64_BYTES + 1);
  const usize n = NV_B64_BYTES;
  const usize groups = (n + 2) / 3;
  char in[4 * ((NV_B64_BYTES + 2) / 3) + 1];
  // RFC 4648 section 4 encoder, written from the standard
  for(usize g = 0; g < groups; g++)
  {
    unsigned b0 = src[3 * g], b1 = 3 * g + 1 < n ? src[3 * g + 1] : 0, b2 = 3 * g + 2 < n ? src[3 * g + 2] : 0;
    unsigned v = b0 * 65536 + b1 * 256 + b2;
    in[4 * g] = ALPHA[v / 262144 % 64];
    in[4 * g + 1] = ALPHA[v / 4096 % 64];
    in[4 * g + 2] = 3 * g + 1 < n ? ALPHA[v / 64 % 64] : '=';
    in[4 * g + 3] = 3 * g + 2 < n ? ALPHA[v % 64] : '=';
  }
  in[4 * groups] = 0;
  String data;
  data.attach(in, 4 * groups);
  g_sbuf = 0; g_scap = 0; g_slen = 0;
  String r = String::fromBase64(data);
  bool ok = g_slen == n;
  for(usize i = 0; i < n; i++) ok = ok && g_sbuf[i] == src[i];
  NV_CHECK(ok, "fromBase64(RFC 4648 encoding of src) == src");
  NV_REACH("fromBase64_roundtrip.return");
}

} // extern "C"
