// C08 -- Buffer: harness entries and predicates over the real private fields.
// Compiled twice: by goto-cc (contracts of contracts/buffer.c enforced by DFCC) and by g++
// with -DNV_NATIVE for counterexample replay against the unmodified /repo code.
#define private public
#include <nstd/Buffer.hpp>
#undef private
#include "nvh.h"

extern "C" {

// ---------------------------------------------------------------- ghost state
usize g_woff;      // watched byte offset, see contracts/memory.c
usize g_woff2;     // second watched offset, for bytes that are copied twice
bool g_need2;      // the model byte travels through an intermediate position ...
usize g_mid;       // ... at this view index of the final storage
bool g_mid_abs;    // ... or at this byte offset of a temporary object
usize g_cmp_wit;   // witness index chosen by the Memory::compare contract
usize g_cmp_k;     // universally quantified index for Memory::compare
usize g_k;         // ghost view index (universally quantified)
usize g_exp_size;  // reference model: size after the operation
bool g_exp_has;    // reference model specifies byte g_k of the new view
byte g_exp_byte;   //   ... and this is its value
usize g_exp_mincap; // reference model: lower bound of capacity() afterwards
int g_exp_kind;     // -1: any; 0: empty-unowned; 1: owned; 2: attached (unchanged range)
// second object of two-object operations
usize g_o_exp_size;
bool g_o_exp_has;
byte g_o_exp_byte;
const byte* g_b_start0;  // pre-state pointers (address stability of swap, getters)
const byte* g_o_start0;
const byte* g_b_buffer0;
const byte* g_o_buffer0;
usize g_b_cap0, g_o_cap0, g_b_size0, g_o_size0;
int g_b_kind0, g_o_kind0;
bool g_alias;

// ---------------------------------------------------------------- representation invariant
// owned:          buffer != 0, buffer <= start <= end <= buffer + capacity, allocation is
//                 exactly capacity + 1 bytes, *end == 0
// empty-unowned:  buffer == 0, start == end == (byte*)&_capacity, _capacity == 0
// attached:       buffer == 0, [start, end) readable foreign memory, _capacity == 0
bool wf_Buffer(const Buffer* b)
{
  if(b->buffer)
    return NV_SAME_OBJECT(b->buffer, b->bufferStart) && NV_SAME_OBJECT(b->buffer, b->bufferEnd) &&
           b->buffer <= b->bufferStart && b->bufferStart <= b->bufferEnd &&
           b->bufferEnd <= b->buffer + b->_capacity && NV_IS_DYNAMIC(b->buffer) &&
           NV_OBJECT_SIZE_IS(b->buffer, b->_capacity + 1) && NV_OFFSET_IS(b->buffer, 0) &&
           b->_capacity <= NV_MAXSZ && *b->bufferEnd == 0;
  if(b->bufferStart == (const byte*)&b->_capacity)
    return b->bufferEnd == b->bufferStart && b->_capacity == 0;
  return b->_capacity == 0 && NV_SAME_OBJECT(b->bufferStart, b->bufferEnd) &&
         b->bufferStart <= b->bufferEnd &&
         NV_R_OK(b->bufferStart, (usize)(b->bufferEnd - b->bufferStart)) &&
         (usize)(b->bufferEnd - b->bufferStart) <= NV_MAXSZ;
}

int kind_Buffer(const Buffer* b)
{
  return b->buffer ? 1 : b->bufferStart == (const byte*)&b->_capacity ? 0 : 2;
}

// view'(self) == model: size, watched byte, capacity bound, ownership kind, terminator (in wf)
bool post_view(const Buffer* b)
{
  if(!wf_Buffer(b))
    return false;
  usize size = b->bufferEnd - b->bufferStart;
  if(size != g_exp_size)
    return false;
  if(b->_capacity < g_exp_mincap)
    return false;
  int kind = b->buffer ? 1 : b->bufferStart == (const byte*)&b->_capacity ? 0 : 2;
  if(g_exp_kind >= 0 && kind != g_exp_kind)
    return false;
  if(g_exp_has && g_k < size && NV_OFFSET(b->bufferStart) + g_k == g_woff &&
     (!g_need2 || (g_mid_abs ? g_mid : NV_OFFSET(b->bufferStart) + g_mid) == g_woff2))
    return b->bufferStart[g_k] == g_exp_byte;
  return true;
}

// swap: the two objects exchange storage, capacity and contents without moving a byte
bool post_swap(const Buffer* b, const Buffer* o)
{
  if(!wf_Buffer(b) || !wf_Buffer(o))
    return false;
  if(g_alias)
    return (usize)(b->bufferEnd - b->bufferStart) == g_b_size0 && b->buffer == g_b_buffer0 &&
           b->bufferStart == g_b_start0;
  return (usize)(b->bufferEnd - b->bufferStart) == g_o_size0 && (usize)(o->bufferEnd - o->bufferStart) == g_b_size0 &&
         b->buffer == g_o_buffer0 && o->buffer == g_b_buffer0 && b->_capacity == g_o_cap0 && o->_capacity == g_b_cap0 &&
         (g_o_kind0 == 0 ? b->bufferStart == (const byte*)&b->_capacity : b->bufferStart == g_o_start0) &&
         (g_b_kind0 == 0 ? o->bufferStart == (const byte*)&o->_capacity : o->bufferStart == g_b_start0);
}

bool post_attach(const Buffer* b, const byte* data, usize len)
{
  return wf_Buffer(b) && b->buffer == 0 && b->bufferStart == data && b->bufferEnd == data + len;
}

bool post_view_other(const Buffer* o)
{
  if(!wf_Buffer(o))
    return false;
  usize size = o->bufferEnd - o->bufferStart;
  if(size != g_o_exp_size)
    return false;
  if(g_o_exp_has && g_k < size && NV_OFFSET(o->bufferStart) + g_k == g_woff)
    return o->bufferStart[g_k] == g_o_exp_byte;
  return true;
}

} // extern "C"

// ---------------------------------------------------------------- symbolic pre-state
// Every reachable representation is generated from scalar selectors:
//   kind 0: default constructed; kind 1: owned, capacity cap, head-room head, size sz;
//   kind 2: attached to ext[eo .. eo+sz) of a foreign object of extn bytes.
struct Pre
{
  usize kind, cap, head, sz, extn, eo;
  byte* ext;
};

#ifdef NV_NATIVE
static void nv_pattern(byte* p, usize n, unsigned salt) { for(usize i = 0; i < n; ++i) p[i] = (byte)(i * 37 + 11 + salt); }
#else
#define nv_pattern(p, n, salt) do { } while(0)
#endif

#define NV_PRE_INPUTS(P, pfx) \
  NV_INPUT(usize, pfx##kind); NV_INPUT(usize, pfx##cap); NV_INPUT(usize, pfx##head); \
  NV_INPUT(usize, pfx##sz); NV_INPUT(usize, pfx##extn); NV_INPUT(usize, pfx##eo); \
  Pre P; P.kind = pfx##kind; P.cap = pfx##cap; P.head = pfx##head; P.sz = pfx##sz; \
  P.extn = pfx##extn; P.eo = pfx##eo; P.ext = 0; \
  NV_ASSUME(P.kind <= 2 && ((pfx##KINDS >> P.kind) & 1)); \
  NV_ASSUME(P.kind != 0 || P.sz == 0); \
  NV_ASSUME(P.kind != 1 || (P.cap <= NV_MAXSZ && P.head <= P.cap && P.sz <= P.cap - P.head)); \
  NV_ASSUME(P.kind != 2 || (P.extn >= 1 && P.extn <= NV_MAXSZ && P.eo <= P.extn && P.sz <= P.extn - P.eo))

static void build(Buffer& b, Pre& p, unsigned salt)
{
  if(p.kind == 1)
  {
    b.buffer = (byte*)new char[p.cap + 1];
    nv_pattern(b.buffer, p.cap + 1, salt);
    b._capacity = p.cap;
    b.bufferStart = b.buffer + p.head;
    b.bufferEnd = b.bufferStart + p.sz;
    *b.bufferEnd = 0;
  }
  else if(p.kind == 2)
  {
    p.ext = (byte*)new char[p.extn];
    nv_pattern(p.ext, p.extn, salt + 5);
    b.buffer = 0;
    b._capacity = 0;
    b.bufferStart = p.ext + p.eo;
    b.bufferEnd = b.bufferStart + p.sz;
  }
}

// input classes (units restrict them with -D so that a known finding never masks another class)
#ifndef NV_KINDS
#define NV_KINDS 7 /* bit k set: kind k allowed for the object under test */
#endif
#define KINDS NV_KINDS
#define o_KINDS 7
#ifdef NV_ALIAS
#define NV_ALIAS_CLASS(a) NV_ASSUME((a) == (NV_ALIAS != 0))
#if NV_ALIAS
#define NV_PICK(b, o2, alias) (&(b)) /* statically, so that symex prunes the dead branches */
#else
#define NV_PICK(b, o2, alias) (&(o2))
#endif
#else
#define NV_ALIAS_CLASS(a) do { } while(0)
#define NV_PICK(b, o2, alias) ((alias) ? &(b) : &(o2))
#endif

// the ghost index and the watched byte of the old view
#define NV_GHOST_INDEX() \
  NV_INPUT(usize, k); NV_INPUT(usize, woff); NV_INPUT(usize, woff2); g_k = k; g_woff = woff; g_woff2 = woff2; g_cmp_k = k; g_need2 = false; g_mid = 0; g_mid_abs = false; \
  g_exp_mincap = 0; g_exp_kind = -1; g_exp_has = false

static byte old_at(Buffer& b, usize i, byte v)
{
  // pin the (otherwise arbitrary) old view byte i to input v so that a replay reproduces it
  b.bufferStart[i] = v;
  return v;
}


static void snapshot(Buffer& b, Buffer& o)
{
  g_b_start0 = b.bufferStart; g_o_start0 = o.bufferStart; g_b_buffer0 = b.buffer; g_o_buffer0 = o.buffer;
  g_b_cap0 = b._capacity; g_o_cap0 = o._capacity; g_b_size0 = b.size(); g_o_size0 = o.size();
  g_b_kind0 = kind_Buffer(&b); g_o_kind0 = kind_Buffer(&o);
}

extern "C" {

void h_layout()
{
  Buffer* z = 0;
  NV_CHECK((usize)&z->buffer == 0 && (usize)&z->bufferStart == 8 && (usize)&z->bufferEnd == 16 &&
           (usize)&z->_capacity == 24 && sizeof(Buffer) == 32, "layout Buffer == struct Buffer_L");
}

// -------------------------------------------------------------- constructors / destructor
void h_ctor_default()
{
  NV_GHOST_INDEX();
  g_exp_size = 0; g_exp_kind = 0;
  Buffer b;
  NV_POST("Buffer::Buffer() postcondition", post_view(&b));
  NV_REACH("ctor_default.return");
}

void h_ctor_cap()
{
  NV_INPUT(usize, cap);
  NV_GHOST_INDEX();
  NV_ASSUME(cap <= NV_MAXSZ);
  g_exp_size = 0; g_exp_kind = 1; g_exp_mincap = cap;
  Buffer b(cap);
  NV_POST("Buffer::Buffer(capacity) postcondition", post_view(&b) && b.capacity() == cap);
  NV_REACH("ctor_cap.return");
}

void h_ctor_data()
{
  NV_INPUT(usize, n);
  NV_INPUT(byte, vbyte);
  NV_GHOST_INDEX();
  NV_ASSUME(n <= NV_MAXSZ);
  byte* data = (byte*)new char[n + 1];
  nv_pattern(data, n, 99);
  g_exp_size = n; g_exp_kind = 1;
  if(k < n) { g_exp_has = true; g_exp_byte = data[k] = vbyte; }
  {
    Buffer b(data, n);
    NV_POST("Buffer::Buffer(data,size) postcondition", post_view(&b));
    NV_REACH("ctor_data.return");
  }
  delete[] (char*)data;
}

void h_ctor_copy()
{
  NV_PRE_INPUTS(Q, o_);
  NV_INPUT(byte, vbyte);
  NV_GHOST_INDEX();
  Buffer o;
  build(o, Q, 7);
  g_exp_size = o.size(); g_exp_kind = 1;
  g_o_exp_size = o.size(); g_o_exp_has = false;
  if(k < g_exp_size) { g_exp_has = true; g_exp_byte = old_at(o, k, vbyte); }
  NV_PRE(wf_Buffer(&o));
  {
    Buffer b(o);
    NV_POST("Buffer::Buffer(const Buffer&) postcondition", post_view(&b) && post_view_other(&o));
    NV_REACH("ctor_copy.return");
  }
  delete[] (char*)Q.ext;
}

void h_dtor()
{
  NV_PRE_INPUTS(P, );
  Buffer* b = new Buffer;
  build(*b, P, 0);
  NV_PRE(wf_Buffer(b));
  delete b;
  NV_REACH("dtor.return");
  delete[] (char*)P.ext;
}

// -------------------------------------------------------------- attach(data, length)
void h_attach()
{
  NV_PRE_INPUTS(P, );
  NV_INPUT(usize, len);
  NV_INPUT(usize, fn);
  NV_INPUT(usize, fo);
  NV_GHOST_INDEX();
  NV_ASSUME(fn >= 1 && fn <= NV_MAXSZ && fo <= fn && len <= fn - fo);
  Buffer b;
  build(b, P, 0);
  byte* foreign = (byte*)new char[fn];
  nv_pattern(foreign, fn, 3);
  NV_PRE(wf_Buffer(&b));
  b.attach(foreign + fo, len);
  NV_POST("Buffer::attach postcondition", post_attach(&b, foreign + fo, len));
  NV_REACH("attach.return");
  delete[] (char*)foreign;
  delete[] (char*)P.ext;
}

// -------------------------------------------------------------- operator=(other)
void h_assign_op()
{
  NV_PRE_INPUTS(P, );
  NV_PRE_INPUTS(Q, o_);
  NV_INPUT(bool, alias);
  NV_ALIAS_CLASS(alias);
  NV_INPUT(byte, vbyte);
  NV_GHOST_INDEX();
  Buffer b, o2;
  build(b, P, 0);
  if(!alias) build(o2, Q, 7);
  Buffer* op = NV_PICK(b, o2, alias);
  Buffer& o = *op;
  g_alias = alias;
  g_exp_size = o.size();
  g_o_exp_size = o.size(); g_o_exp_has = false;
  if(k < g_exp_size) { g_exp_has = true; g_o_exp_has = true; g_o_exp_byte = g_exp_byte = old_at(o, k, vbyte); }
  const byte* before = b.buffer;
  NV_PRE(wf_Buffer(&b) && wf_Buffer(&o));
  b = o;
  NV_POST("Buffer::operator= postcondition", post_view(&b) && (alias || wf_Buffer(&o)));
  if(b.buffer != before) { NV_REACH("assign_op.realloc"); }
  if(b.buffer == before && !alias) { NV_REACH("assign_op.inplace"); }
  if(alias) { NV_REACH("assign_op.self"); }
  delete[] (char*)P.ext;
  delete[] (char*)Q.ext;
}

// -------------------------------------------------------------- assign(data, n)
void h_assign()
{
  NV_PRE_INPUTS(P, );
  NV_INPUT(usize, n);
  NV_INPUT(byte, vbyte);
  NV_GHOST_INDEX();
  NV_ASSUME(n <= NV_MAXSZ);
  Buffer b;
  build(b, P, 0);
  byte* data = (byte*)new char[n + 1];
  nv_pattern(data, n, 99);
  g_exp_size = n;
  if(k < n) { g_exp_has = true; g_exp_byte = data[k] = vbyte; }
  const byte* before = b.buffer;
  NV_PRE(wf_Buffer(&b));
  b.assign(data, n);
  NV_POST("Buffer::assign postcondition", post_view(&b));
  if(b.buffer != before) { NV_REACH("assign.realloc"); }
  if(b.buffer == before) { NV_REACH("assign.inplace"); }
  delete[] (char*)data;
  delete[] (char*)P.ext;
}

// -------------------------------------------------------------- operator== / operator!=
// result <=> the two views are equal.  "equal" is decided with the ghost index (all k) in one
// direction and with the witness of the Memory::compare contract in the other.
static bool eq_ok(const Buffer& b, const Buffer& o, bool r)
{
  // (no member calls here: predicates used in contract clauses are not instrumented by DFCC, P22)
  usize sb = b.bufferEnd - b.bufferStart, so = o.bufferEnd - o.bufferStart;
  if(r)
    return sb == so && (g_cmp_k >= sb || b.bufferStart[g_cmp_k] == o.bufferStart[g_cmp_k]);
  return sb != so || (g_cmp_wit < sb && b.bufferStart[g_cmp_wit] != o.bufferStart[g_cmp_wit]);
}
bool g_result;
bool post_eq(const Buffer* b, const Buffer* o, bool r) { return eq_ok(*b, *o, r); }
bool post_ne(const Buffer* b, const Buffer* o, bool r) { return eq_ok(*b, *o, !r); }

void h_eq()
{
  NV_PRE_INPUTS(P, );
  NV_PRE_INPUTS(Q, o_);
  NV_INPUT(bool, alias);
  NV_ALIAS_CLASS(alias);
  NV_GHOST_INDEX();
  Buffer b, o2;
  build(b, P, 0);
  if(!alias) build(o2, Q, 7);
  Buffer* op = NV_PICK(b, o2, alias);
  Buffer& o = *op;
  NV_PRE(wf_Buffer(&b) && wf_Buffer(&o));
  bool r = b == o;
  NV_POST("Buffer::operator== postcondition", post_eq(&b, &o, r));
  if(r && !alias && b.size() > 0) { NV_REACH("eq.true"); }
  if(!r && b.size() == o.size()) { NV_REACH("eq.false_content"); }
  delete[] (char*)P.ext;
  delete[] (char*)Q.ext;
}

void h_ne()
{
  NV_PRE_INPUTS(P, );
  NV_PRE_INPUTS(Q, o_);
  NV_INPUT(bool, alias);
  NV_ALIAS_CLASS(alias);
  NV_GHOST_INDEX();
  Buffer b, o2;
  build(b, P, 0);
  if(!alias) build(o2, Q, 7);
  Buffer* op = NV_PICK(b, o2, alias);
  Buffer& o = *op;
  NV_PRE(wf_Buffer(&b) && wf_Buffer(&o));
  bool r = b != o;
  NV_POST("Buffer::operator!= postcondition", post_ne(&b, &o, r));
  if(!r && !alias && b.size() > 0) { NV_REACH("ne.false"); }
  if(r && b.size() == o.size()) { NV_REACH("ne.true_content"); }
  delete[] (char*)P.ext;
  delete[] (char*)Q.ext;
}

// -------------------------------------------------------------- prepend(data, n)
void h_prepend()
{
  NV_PRE_INPUTS(P, );
  NV_INPUT(usize, n);
  NV_INPUT(byte, vbyte);
  NV_GHOST_INDEX();
  NV_ASSUME(n <= NV_MAXSZ);
  Buffer b;
  build(b, P, 0);
  byte* data = (byte*)new char[n + 1];
  nv_pattern(data, n, 99);
  usize old = b.size();
  g_exp_size = old + n;
  NV_ASSUME(g_exp_size <= NV_MAXSZ && k < g_exp_size);
  g_exp_has = true;
  if(k < n)
    g_exp_byte = data[k] = vbyte;
  else
    g_exp_byte = old_at(b, k - n, vbyte);
  const byte* before = b.buffer;
  const byte* before_start = b.bufferStart;
  NV_PRE(wf_Buffer(&b));
  b.prepend(data, n);
  NV_POST("Buffer::prepend postcondition", post_view(&b));
  if(b.buffer != before) { NV_REACH("prepend.realloc"); }
  if(b.buffer == before && before != 0 && n > 0 && (usize)(before_start - before) < n) { NV_REACH("prepend.move"); }
  if(b.buffer == before && n > 0 && before_start != b.buffer) { NV_REACH("prepend.headroom"); }
  delete[] (char*)data;
  delete[] (char*)P.ext;
}

// -------------------------------------------------------------- prepend(const Buffer&)
void h_prepend_buf()
{
  NV_PRE_INPUTS(P, );
  NV_PRE_INPUTS(Q, o_);
  NV_INPUT(bool, alias);
  NV_ALIAS_CLASS(alias);
  NV_INPUT(byte, vbyte);
  NV_GHOST_INDEX();
  Buffer b, o2;
  build(b, P, 0);
  if(!alias) build(o2, Q, 7);
  Buffer* op = NV_PICK(b, o2, alias);
  Buffer& o = *op;
  usize old = b.size(), n = o.size();
  g_exp_size = old + n;
  NV_ASSUME(g_exp_size <= NV_MAXSZ && k < g_exp_size);
  g_exp_has = true;
  if(k < n)
    g_exp_byte = old_at(o, k, vbyte);
  else
    g_exp_byte = old_at(b, k - n, vbyte);
  // b.prepend(b) goes through a temporary copy: byte k of the copy sits at offset k of its storage
  if(alias && k < n) { g_need2 = true; g_mid_abs = true; g_mid = k; }
  NV_PRE(wf_Buffer(&b) && wf_Buffer(&o));
  b.prepend(o);
  NV_POST("Buffer::prepend(const Buffer&) postcondition", post_view(&b) && (alias || wf_Buffer(&o)));
  if(alias && n > 0) { NV_REACH("prepend_buf.self"); }
  if(!alias && n > 0 && old > 0) { NV_REACH("prepend_buf.other"); }
  delete[] (char*)P.ext;
  delete[] (char*)Q.ext;
}

// -------------------------------------------------------------- append(data, n)
void h_append()
{
  NV_PRE_INPUTS(P, );
  NV_INPUT(usize, n);
  NV_INPUT(byte, vbyte);
  NV_GHOST_INDEX();
  NV_ASSUME(n <= NV_MAXSZ);
  Buffer b;
  build(b, P, 0);
  byte* data = (byte*)new char[n + 1];
  nv_pattern(data, n, 99);
  usize old = b.size();
  g_exp_size = old + n;
  NV_ASSUME(g_exp_size <= NV_MAXSZ && k < g_exp_size);
  g_exp_has = true;
  if(k < old)
    g_exp_byte = old_at(b, k, vbyte);
  else
    g_exp_byte = data[k - old] = vbyte;
  const byte* before = b.buffer;
  NV_PRE(wf_Buffer(&b));
  b.append(data, n);
  NV_POST("Buffer::append postcondition", post_view(&b));
  if(b.buffer != before) { NV_REACH("append.realloc"); }
  if(b.buffer == before) { NV_REACH("append.inplace"); }
  delete[] (char*)data;
  delete[] (char*)P.ext;
}

// -------------------------------------------------------------- append(const Buffer&)
void h_append_buf()
{
  NV_PRE_INPUTS(P, );
  NV_PRE_INPUTS(Q, o_);
  NV_INPUT(bool, alias);
  NV_ALIAS_CLASS(alias);
  NV_INPUT(byte, vbyte);
  NV_GHOST_INDEX();
  Buffer b, o2;
  build(b, P, 0);
  if(!alias) build(o2, Q, 7);
  Buffer* op = NV_PICK(b, o2, alias);
  Buffer& o = *op;
  usize old = b.size(), n = o.size();
  g_exp_size = old + n;
  NV_ASSUME(g_exp_size <= NV_MAXSZ && k < g_exp_size);
  g_exp_has = true;
  if(k < old)
    g_exp_byte = old_at(b, k, vbyte);
  else
    g_exp_byte = old_at(o, k - old, vbyte);
  // b.append(b) with reallocation copies byte k-old to the new storage first and from there to k
  if(alias && k >= old) { g_need2 = true; g_mid = k - old; }
  NV_PRE(wf_Buffer(&b) && wf_Buffer(&o));
  b.append(o);
  NV_POST("Buffer::append(const Buffer&) postcondition", post_view(&b) && (alias || wf_Buffer(&o)));
  if(alias && n > 0) { NV_REACH("append_buf.self"); }
  if(!alias && n > 0 && old > 0) { NV_REACH("append_buf.other"); }
  delete[] (char*)P.ext;
  delete[] (char*)Q.ext;
}

// -------------------------------------------------------------- resize(n)
void h_resize()
{
  NV_PRE_INPUTS(P, );
  NV_INPUT(usize, n);
  NV_INPUT(byte, vbyte);
  NV_GHOST_INDEX();
  NV_ASSUME(n <= NV_MAXSZ);
  Buffer b;
  build(b, P, 0);
  usize old = b.size();
  g_exp_size = n;
  if(k < old && k < n) { g_exp_has = true; g_exp_byte = old_at(b, k, vbyte); }
  const byte* before = b.buffer;
  const byte* before_start = b.bufferStart;
  NV_PRE(wf_Buffer(&b));
  b.resize(n);
  NV_POST("Buffer::resize postcondition", post_view(&b));
  if(b.buffer != before) { NV_REACH("resize.realloc"); }
  if(b.buffer == before && b.bufferStart != before_start) { NV_REACH("resize.move"); }
  if(b.buffer == before && b.bufferStart == before_start && n > old) { NV_REACH("resize.grow_inplace"); }
  if(n < old) { NV_REACH("resize.shrink"); }
  delete[] (char*)P.ext;
}

// -------------------------------------------------------------- removeFront(n) / removeBack(n)
void h_removeFront()
{
  NV_PRE_INPUTS(P, );
  NV_INPUT(usize, n);
  NV_INPUT(byte, vbyte);
  NV_GHOST_INDEX();
  NV_ASSUME(n <= NV_MAXSZ);
  Buffer b;
  build(b, P, 0);
  usize old = b.size();
  g_exp_size = n >= old ? 0 : old - n;
  if(k < g_exp_size) { g_exp_has = true; g_exp_byte = old_at(b, k + n, vbyte); }
  NV_PRE(wf_Buffer(&b));
  b.removeFront(n);
  NV_POST("Buffer::removeFront postcondition", post_view(&b));
  if(n > 0 && n < old) { NV_REACH("removeFront.partial"); }
  if(n >= old && old > 0) { NV_REACH("removeFront.all"); }
  delete[] (char*)P.ext;
}

void h_removeBack()
{
  NV_PRE_INPUTS(P, );
  NV_INPUT(usize, n);
  NV_INPUT(byte, vbyte);
  NV_GHOST_INDEX();
  NV_ASSUME(n <= NV_MAXSZ);
  Buffer b;
  build(b, P, 0);
  usize old = b.size();
  g_exp_size = n >= old ? 0 : old - n;
  if(k < g_exp_size) { g_exp_has = true; g_exp_byte = old_at(b, k, vbyte); }
  NV_PRE(wf_Buffer(&b));
  b.removeBack(n);
  NV_POST("Buffer::removeBack postcondition", post_view(&b));
  if(n > 0 && n < old) { NV_REACH("removeBack.partial"); }
  if(n >= old && old > 0) { NV_REACH("removeBack.all"); }
  delete[] (char*)P.ext;
}

// -------------------------------------------------------------- reserve(capacity)
void h_reserve()
{
  NV_PRE_INPUTS(P, );
  NV_INPUT(usize, c);
  NV_INPUT(byte, vbyte);
  NV_GHOST_INDEX();
  NV_ASSUME(c <= NV_MAXSZ);
  Buffer b;
  build(b, P, 0);
  g_exp_size = b.size();
  g_exp_mincap = c > b._capacity ? c : b._capacity;
  if(k < g_exp_size) { g_exp_has = true; g_exp_byte = old_at(b, k, vbyte); }
  const byte* before = b.buffer;
  NV_PRE(wf_Buffer(&b));
  b.reserve(c);
  NV_POST("Buffer::reserve postcondition", post_view(&b));
  if(b.buffer != before) { NV_REACH("reserve.realloc"); }
  if(b.buffer == before) { NV_REACH("reserve.noop"); }
  delete[] (char*)P.ext;
}

// -------------------------------------------------------------- clear() / free()
void h_clear()
{
  NV_PRE_INPUTS(P, );
  NV_GHOST_INDEX();
  Buffer b;
  build(b, P, 0);
  g_exp_size = 0;
  g_exp_mincap = b._capacity;
  NV_PRE(wf_Buffer(&b));
  b.clear();
  NV_POST("Buffer::clear postcondition", post_view(&b));
  NV_REACH("clear.return");
  delete[] (char*)P.ext;
}

void h_free()
{
  NV_PRE_INPUTS(P, );
  NV_GHOST_INDEX();
  Buffer b;
  build(b, P, 0);
  g_exp_size = 0; g_exp_kind = 0;
  NV_PRE(wf_Buffer(&b));
  b.free();
  NV_POST("Buffer::free postcondition", post_view(&b));
  NV_REACH("free.return");
  delete[] (char*)P.ext;
}

// -------------------------------------------------------------- swap(other)
void h_swap()
{
  NV_PRE_INPUTS(P, );
  NV_PRE_INPUTS(Q, o_);
  NV_INPUT(bool, alias);
  NV_ALIAS_CLASS(alias);
  NV_GHOST_INDEX();
  Buffer b, o2;
  build(b, P, 0);
  if(!alias) build(o2, Q, 7);
  Buffer* op = NV_PICK(b, o2, alias);
  Buffer& o = *op;
  g_alias = alias;
  snapshot(b, o);
  NV_PRE(wf_Buffer(&b) && wf_Buffer(&o));
  b.swap(o);
  NV_POST("Buffer::swap postcondition", post_swap(&b, &o));
  NV_REACH("swap.return");
  delete[] (char*)P.ext;
  delete[] (char*)Q.ext;
}

// -------------------------------------------------------------- observers
usize g_ret_usize;
const byte* g_ret_ptr;
bool post_size(const Buffer* b, usize r) { return r == (usize)(b->bufferEnd - b->bufferStart); }
bool post_capacity(const Buffer* b, usize r) { return r == b->_capacity && (b->buffer == 0 || NV_OBJECT_SIZE_IS(b->buffer, r + 1)); }
bool post_isEmpty(const Buffer* b, bool r) { return r == (b->bufferEnd == b->bufferStart); }
bool post_ptr(const Buffer* b, const byte* r) { return r == b->bufferStart; }

void h_observers()
{
  NV_PRE_INPUTS(P, );
  Buffer b;
  build(b, P, 0);
  NV_PRE(wf_Buffer(&b));
  const Buffer& cb = b;
  usize s = cb.size();
  usize c = cb.capacity();
  bool e = cb.isEmpty();
  const byte* p = cb;
  // the non-const conversion operator (same body) cannot be named through goto-cc's front end
  NV_POST("Buffer observers", post_size(&b, s) && post_capacity(&b, c) && post_isEmpty(&b, e) && post_ptr(&b, p));
  NV_CHECK(post_size(&b, s) && post_capacity(&b, c) && post_isEmpty(&b, e) && post_ptr(&b, p), "Buffer observers agree with the view");
  NV_REACH("observers.return");
  delete[] (char*)P.ext;
}

} // extern "C"
