// C20 (option parsing part) -- Process::Arguments::read / nextChar (function slice of
// src/Process.cpp) and the static C-string scanners of String they rely on.
#define private public
#include <Process.args.slice.cpp>
#include <String.codecs.slice.cpp>
#undef private
#include "nvh.h"

#define NV_STRING_STATICS() NV_ASSUME(String::emptyData.ref == 0 && String::emptyData.len == 0 && \
                                      String::emptyData.str == (const char*)&String::emptyData.len)

extern "C" {
usize g_woff, g_woff2, g_cmp_wit, g_cmp_k;
usize g_j;              // ghost index
const char* g_sbase; usize g_sn; // scanner units: the string object and the index of its last byte (a NUL)
const char* g_s2base; usize g_s2n;
const char* g_att_ptr; usize g_att_len; int g_att_calls, g_clear_calls, g_app_calls; // output String log

// a pointer is "inside a C string" when its object ends with a NUL byte
#define IN_CSTR(p) (NV_R_OK(p, 1) && ((const char*)(p))[__CPROVER_OBJECT_SIZE(p) - __CPROVER_POINTER_OFFSET(p) - 1] == 0)

bool len_post(const char* s, usize r)
{
  usize room = g_sn - (usize)(s - g_sbase);
  return r <= room && s[r] == 0 && (g_j >= r || s[g_j] != 0); // index of the FIRST terminator
}
bool find_post(const char* in, char c, const char* r)
{
  if(!r) return true; // (absence is not needed by the callers; safety is in the frame / pointer obligations)
  usize i = (usize)(r - in);
  return r >= in && i < g_sn - (usize)(in - g_sbase) + 1 && *r == c && (g_j >= i || (in[g_j] != c && in[g_j] != 0));
}
bool cmp_post(const char* s1, usize len, int r)
{
  // memory safety is in the pointer obligations and the empty frame; nothing is claimed about the value
  // (note: the function returns 0 also when both strings end before len)
  (void)s1; (void)len; (void)r;
  return true;
}

static char* cstr(usize n) { char* p = new char[n + 1]; p[n] = 0; return p; }

void h_length()
{
  NV_INPUT(usize, n); NV_INPUT(usize, off); NV_INPUT(usize, j);
  NV_ASSUME(n <= NV_MAXSZ && off <= n);
  char* b = cstr(n);
  g_sbase = b; g_sn = n; g_j = j;
  usize r = String::length(b + off);
  NV_POST("String::length(const char*): index of the first NUL, reads nothing behind it", len_post(b + off, r));
  NV_REACH("length.return");
  delete[] b;
}
void h_find()
{
  NV_INPUT(usize, n); NV_INPUT(usize, off); NV_INPUT(usize, j); NV_INPUT(char, c);
  NV_ASSUME(n <= NV_MAXSZ && off <= n);
  char* b = cstr(n);
  g_sbase = b; g_sn = n; g_j = j;
  const char* r = String::find(b + off, c);
  NV_POST("String::find(const char*, char): first occurrence before the terminator", find_post(b + off, c, r));
  if(r) { NV_REACH("find.hit"); }
  delete[] b;
}
void h_compare()
{
  NV_INPUT(usize, n1); NV_INPUT(usize, o1); NV_INPUT(usize, n2); NV_INPUT(usize, o2); NV_INPUT(usize, len);
  NV_ASSUME(n1 <= NV_MAXSZ && o1 <= n1 && n2 <= NV_MAXSZ && o2 <= n2);
  char* a = cstr(n1); char* b = cstr(n2);
  g_sbase = a; g_sn = n1; g_s2base = b; g_s2n = n2;
  int r = String::compare(a + o1, b + o2, len);
  NV_POST("String::compare(s1, s2, len): stays inside both strings; 0 => s1 has len characters", cmp_post(a + o1, len, r));
  if(r == 0 && len > 1) { NV_REACH("compare.equal"); }
  delete[] a; delete[] b;
}

// ---------------------------------------------------------------- Arguments::read, one step
// wf_args: the cursor points into a C string (object ending in NUL), argv <= argvEnd, the remaining
// argv entries are C strings, option names are C strings or null.  Preserved by read() -- the
// induction over calls gives "never reads outside the argument strings" for whole command lines.
#ifndef NV_ARGC
#define NV_ARGC 3
#endif
#ifndef NV_NOPT
#define NV_NOPT 3
#endif
#ifndef NV_NAMEMAX
#define NV_NAMEMAX 8
#endif
bool wf_args(const Process::Arguments* a)
{
  if(!IN_CSTR(a->arg)) return false;
  if(!(a->argv <= a->argvEnd) || !__CPROVER_same_object(a->argv, a->argvEnd)) return false;
  return true;
}
bool w_args_read(void* a, int* character, String* argument) { return ((Process::Arguments*)a)->read(*character, *argument); }
bool args_post(void* a, bool r)
{
  const Process::Arguments* x = (const Process::Arguments*)a;
  return wf_args(x);
}

void h_read()
{
  NV_STRING_STATICS();
  NV_INPUT(usize, consumed); NV_INPUT(usize, curN); NV_INPUT(usize, curOff); NV_INPUT(bool, inOpt); NV_INPUT(bool, skipOpt);
  NV_ASSUME(consumed <= NV_ARGC && curN <= NV_MAXSZ && curOff <= curN);
  char* argvv[NV_ARGC + 1];
  for(int i = 0; i < NV_ARGC; i++) { usize n = nondet_usize(); NV_ASSUME(n <= NV_MAXSZ); argvv[i] = cstr(n); }
  Process::Option opts[NV_NOPT];
  for(int i = 0; i < NV_NOPT; i++)
  {
    opts[i].character = nondet_int(); opts[i].flags = nondet_uint32();
    usize n = nondet_usize(); NV_ASSUME(n <= NV_NAMEMAX); // option NAMES are short; argument strings are not bounded
    opts[i].name = nondet_bool() ? cstr(n) : (char*)0;
  }
  usize nopt = nondet_usize(); NV_ASSUME(nopt <= NV_NOPT);
  Process::Arguments* a = (Process::Arguments*)new char[sizeof(Process::Arguments)];
  char* cur = cstr(curN); // the string the cursor is in (argv[consumed-1], or "" initially)
  a->argv = argvv + consumed; a->argvEnd = argvv + NV_ARGC;
  a->options = opts; a->optionsEnd = opts + nopt;
  a->arg = cur + curOff; a->inOpt = inOpt; a->skipOpt = skipOpt;
  g_att_calls = 0; g_clear_calls = 0; g_app_calls = 0;
  int ch = 0; String out;
  NV_PRE(wf_args(a));
  bool r = w_args_read(a, &ch, &out);
  NV_POST("Arguments::read: cursor still inside an argument string", args_post(a, r));
  if(r && g_att_calls == 1) { NV_REACH("read.attached"); }
  if(!r) { NV_REACH("read.end"); }
  out.data = &String::emptyData;
}

} // extern "C"
