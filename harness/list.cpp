// C03 / C04 / C05 -- List<T>: step contracts on symbolic neighbourhoods (unbounded: whatever the
// rest of the list looks like) and bounded whole-list checks (<= 3 elements) for the operations
// that walk the list.  Element type Tr counts constructions / destructions in ghost state.
#define private public
#include <nstd/List.hpp>
#undef private
#include "nvh.h"

extern "C" {
int g_ctor, g_dtor;          // ghost: element constructions / destructions since the last reset
const void* g_last_ctor;     // address of the element constructed / destroyed last
const void* g_last_dtor;
}

struct Tr
{
  long v; // 8 bytes: goto-cc lays C++ classes out without alignment padding, keep the mirror trivial
  Tr() : v(0) { ++g_ctor; g_last_ctor = this; }
  Tr(const Tr& o) : v(o.v) { ++g_ctor; g_last_ctor = this; }
  ~Tr() { ++g_dtor; g_last_dtor = this; }
  Tr& operator=(const Tr& o) { v = o.v; return *this; }
  bool operator==(const Tr& o) const { return v == o.v; }
  bool operator!=(const Tr& o) const { return v != o.v; }
  bool operator<(const Tr& o) const { return v < o.v; }
};
typedef List<Tr> L;
typedef List<Tr>::Item Item;

extern "C" {
// ---------------------------------------------------------------- one-call wrappers (List<Tr> has no C spelling)
void* w_List_insert(void* l, void* posItem, const int* value)
{
  Tr t; t.v = *value; g_ctor = 0; g_dtor = 0; // (the temporary's own construction is not the container's)
  List<Tr>::Iterator pos((Item*)posItem);
  void* r = ((L*)l)->insert(pos, t).item;
  return r;
}
void* w_List_remove(void* l, void* item)
{
  List<Tr>::Iterator it((Item*)item);
  return ((L*)l)->remove(it).item;
}
void w_List_swap(void* a, void* b) { ((L*)a)->swap(*(L*)b); }
void* w_List_removeFront(void* l) { return ((L*)l)->removeFront().item; } // passes the list's own _begin iterator
void* w_List_removeBack(void* l) { return ((L*)l)->removeBack().item; }

// ---------------------------------------------------------------- ghost snapshot of the neighbourhood
L* g_L; Item* g_P; Item* g_Q; Item* g_F; Item* g_F2; Item* g_I; Item* g_N; Item* g_F0;
usize g_size0; int g_val; bool g_hasPrev, g_freeAvail;
void* g_blocks0; Item* g_begin0;
void* gv_Q; void* gv_N; void* gv_a_last; void* gv_b_last; // untyped copies for contracts/list.c

// insert(pos, value): the new item sits between pos's old predecessor and pos; exactly one element
// constructed (in the item), none destroyed; size + 1; the free list lost its head
bool list_insert_post(void* ret)
{
  Item* r = (Item*)ret;
  if(g_freeAvail && r != g_F) return false;
  if(r->value.v != g_val || r->prev != g_Q || r->next != g_P || g_P->prev != r) return false;
  if(g_hasPrev ? (g_Q->next != r || g_L->_begin.item != g_begin0) : g_L->_begin.item != r) return false;
  if(g_L->_size != g_size0 + 1 || g_L->_end.item != &g_L->endItem || g_L->endItem.next != 0) return false;
  if(g_freeAvail ? (g_L->freeItem != g_F2 || g_L->blocks != g_blocks0)
                 : (g_L->freeItem == 0 || g_L->blocks == g_blocks0 || g_L->blocks == 0)) return false;
  return true;
}

// remove(it): neighbours linked to each other, the item's element destroyed exactly once, the item
// heads the free list, the successor is returned
bool list_remove_post(void* ret)
{
  if(ret != (void*)g_N) return false;
  if(g_hasPrev ? (g_Q->next != g_N || g_L->_begin.item != g_begin0) : g_L->_begin.item != g_N) return false;
  if(g_N->prev != g_Q) return false;
  if(g_L->_size != g_size0 - 1 || g_L->freeItem != g_I || g_I->prev != g_F0 || g_I->next != g_N) return false;
  if(g_L->_end.item != &g_L->endItem || g_L->blocks != g_blocks0) return false;
  return true;
}

void h_layout()
{
  L* z = 0; Item* i = 0;
  NV_CHECK((usize)&i->value == 0 && (usize)&i->prev == 8 && (usize)&i->next == 16 && sizeof(Item) == 24,
           "layout List<Tr>::Item == struct Item_L");
  NV_CHECK((usize)&z->_end == 0 && (usize)&z->_begin == 8 && (usize)&z->_size == 16 && (usize)&z->endItem == 24 &&
           (usize)&z->freeItem == 48 && (usize)&z->blocks == 56, "layout List<Tr> == struct List_L");
}

static Item* raw_item() { return (Item*)new char[sizeof(Item)]; }
static L* raw_list()
{
  L* l = (L*)new char[sizeof(L)];
  l->_end.item = &l->endItem; l->endItem.next = 0;
  return l;
}

// -------------------------------------------------------------- insert(position, value)
void h_insert()
{
  NV_INPUT(bool, atEnd); NV_INPUT(bool, hasPrev); NV_INPUT(bool, freeAvail); NV_INPUT(bool, moreFree);
  NV_INPUT(usize, size0); NV_INPUT(int, val);
  NV_ASSUME(size0 <= NV_MAXSZ);
  L* l = raw_list();
  Item* P = atEnd ? &l->endItem : raw_item();
  Item* Q = hasPrev ? raw_item() : (Item*)0;
  Item* F = raw_item(); Item* F2 = moreFree ? raw_item() : (Item*)0;
  Item* other = raw_item(); // stands for "some other first item" when pos has a predecessor
  P->prev = Q;
  if(hasPrev) { Q->next = P; l->_begin.item = other; } else l->_begin.item = P;
  F->prev = F2;
  l->freeItem = freeAvail ? F : (Item*)0;
  l->_size = size0;
  l->blocks = 0;
  g_L = l; g_P = P; g_Q = Q; g_F = F; g_F2 = F2; g_size0 = size0; g_val = val; g_hasPrev = hasPrev;
  g_freeAvail = freeAvail; g_blocks0 = l->blocks; g_begin0 = l->_begin.item; gv_Q = Q;
  void* r = w_List_insert(l, P, &val);
  NV_POST("List::insert: relinking, one construction, size + 1", list_insert_post(r));
  if(freeAvail) { NV_REACH("insert.reuse"); }
  if(!freeAvail) { NV_REACH("insert.new_block"); }
}

// -------------------------------------------------------------- remove(iterator)
void h_remove()
{
  NV_INPUT(bool, nextIsEnd); NV_INPUT(bool, hasPrev); NV_INPUT(bool, hasFree); NV_INPUT(usize, size0);
  NV_ASSUME(size0 >= 1 && size0 <= NV_MAXSZ);
  L* l = raw_list();
  Item* I = raw_item();
  Item* N = nextIsEnd ? &l->endItem : raw_item();
  Item* Q = hasPrev ? raw_item() : (Item*)0;
  Item* F0 = hasFree ? raw_item() : (Item*)0;
  Item* other = raw_item();
  I->prev = Q; I->next = N; N->prev = I;
  if(hasPrev) { Q->next = I; l->_begin.item = other; } else l->_begin.item = I;
  l->freeItem = F0; l->_size = size0; l->blocks = 0;
  g_L = l; g_I = I; g_N = N; g_Q = Q; g_F0 = F0; g_size0 = size0; g_hasPrev = hasPrev;
  g_blocks0 = l->blocks; g_begin0 = l->_begin.item; gv_Q = Q; gv_N = N;
  g_ctor = 0; g_dtor = 0;
  void* r = w_List_remove(l, I);
  NV_POST("List::remove: neighbours relinked, one destruction, successor returned", list_remove_post(r));
  if(hasPrev && !nextIsEnd) { NV_REACH("remove.middle"); }
  if(!hasPrev && nextIsEnd) { NV_REACH("remove.only"); }
}

// -------------------------------------------------------------- removeFront() / removeBack()
// same relinking contract, reached through the members that pass the list's OWN iterators
void h_removeFront()
{
  NV_INPUT(bool, nextIsEnd); NV_INPUT(bool, hasFree); NV_INPUT(usize, size0);
  NV_ASSUME(size0 >= 1 && size0 <= NV_MAXSZ);
  L* l = raw_list();
  Item* I = raw_item();
  Item* N = nextIsEnd ? &l->endItem : raw_item();
  Item* F0 = hasFree ? raw_item() : (Item*)0;
  I->prev = 0; I->next = N; N->prev = I; l->_begin.item = I;
  l->freeItem = F0; l->_size = size0; l->blocks = 0;
  g_L = l; g_I = I; g_N = N; g_Q = 0; g_F0 = F0; g_size0 = size0; g_hasPrev = false;
  g_blocks0 = l->blocks; g_begin0 = l->_begin.item; gv_Q = 0; gv_N = N;
  void* r = w_List_removeFront(l);
  NV_POST("List::removeFront: first element unlinked, its successor returned", list_remove_post(r));
  if(!nextIsEnd) { NV_REACH("removeFront.more"); }
  if(nextIsEnd) { NV_REACH("removeFront.only"); }
}
void h_removeBack()
{
  NV_INPUT(bool, hasPrev); NV_INPUT(bool, hasFree); NV_INPUT(usize, size0);
  NV_ASSUME(size0 >= 1 && size0 <= NV_MAXSZ);
  L* l = raw_list();
  Item* I = raw_item();
  Item* N = &l->endItem;
  Item* Q = hasPrev ? raw_item() : (Item*)0;
  Item* F0 = hasFree ? raw_item() : (Item*)0;
  Item* other = raw_item();
  I->prev = Q; I->next = N; N->prev = I;
  if(hasPrev) { Q->next = I; l->_begin.item = other; } else l->_begin.item = I;
  l->freeItem = F0; l->_size = size0; l->blocks = 0;
  g_L = l; g_I = I; g_N = N; g_Q = Q; g_F0 = F0; g_size0 = size0; g_hasPrev = hasPrev;
  g_blocks0 = l->blocks; g_begin0 = l->_begin.item; gv_Q = Q; gv_N = N;
  void* r = w_List_removeBack(l);
  NV_POST("List::removeBack: last element unlinked, end() returned", list_remove_post(r));
  if(hasPrev) { NV_REACH("removeBack.more"); }
  if(!hasPrev) { NV_REACH("removeBack.only"); }
}

// -------------------------------------------------------------- swap(other)
Item* g_a_first; Item* g_a_last; Item* g_b_first; Item* g_b_last; L* g_La; L* g_Lb;
usize g_a_size, g_b_size; Item* g_a_free; Item* g_b_free; void* g_a_blocks; void* g_b_blocks;
static bool swapped_ok(L* x, Item* first, Item* last, usize size, Item* fr, void* blocks)
{
  if(x->_size != size || x->freeItem != fr || (void*)x->blocks != blocks || x->_end.item != &x->endItem) return false;
  if(last) return x->endItem.prev == last && last->next == &x->endItem && x->_begin.item == first;
  return x->endItem.prev == 0 && x->_begin.item == &x->endItem;
}
bool list_swap_post() { return swapped_ok(g_La, g_b_first, g_b_last, g_b_size, g_b_free, g_b_blocks) &&
                               swapped_ok(g_Lb, g_a_first, g_a_last, g_a_size, g_a_free, g_a_blocks); }

static void half(L* l, bool empty, bool single, usize size, Item*& first, Item*& last, Item*& fr, void*& blocks)
{
  first = last = 0;
  if(!empty)
  {
    last = raw_item();
    first = single ? last : raw_item();
    last->next = &l->endItem;
  }
  l->endItem.prev = last;
  l->_begin.item = empty ? &l->endItem : first;
  l->_size = size;
  fr = raw_item(); l->freeItem = fr;
  blocks = (void*)new char[8]; l->blocks = (List<Tr>::ItemBlock*)blocks;
}
void h_swap()
{
  NV_INPUT(bool, aEmpty); NV_INPUT(bool, aSingle); NV_INPUT(bool, bEmpty); NV_INPUT(bool, bSingle);
  NV_INPUT(usize, aSize); NV_INPUT(usize, bSize);
  L* a = raw_list(); L* b = raw_list();
  half(a, aEmpty, aSingle, aSize, g_a_first, g_a_last, g_a_free, g_a_blocks);
  half(b, bEmpty, bSingle, bSize, g_b_first, g_b_last, g_b_free, g_b_blocks);
  g_La = a; g_Lb = b; g_a_size = aSize; g_b_size = bSize; gv_a_last = g_a_last; gv_b_last = g_b_last;
  g_ctor = 0; g_dtor = 0;
  w_List_swap(a, b);
  NV_POST("List::swap: chains handed over, sentinels re-anchored, no element touched", list_swap_post());
  if(aEmpty && !bEmpty) { NV_REACH("swap.empty_with_full"); }
  if(!aEmpty && !bEmpty) { NV_REACH("swap.full_with_full"); }
}

// ================================================================ bounded whole-list checks (<= 3 elements)
static void fill(L& l, usize n, const int* vals)
{
  Tr t;
  for(usize i = 0; i < 3; i++) if(i < n) { t.v = vals[i]; l.append(t); }
}
static bool equals_model(const L& l, usize n, const int* vals)
{
  if(l.size() != n) return false;
  const Item* it = l._begin.item;
  for(usize i = 0; i < 3; i++)
    if(i < n) { if(it == &l.endItem || it->value.v != vals[i]) return false; it = it->next; }
  return it == &l.endItem && (n == 0) == l.isEmpty();
}

#ifndef NV_BK
#define NV_BK 3
#endif
#define NV_LIST_INPUTS() NV_INPUT(usize, n); NV_INPUT_ARR(int, vals, 3); NV_ASSUME(n <= NV_BK)

void h_b_copy()
{
  NV_LIST_INPUTS();
  L a; fill(a, n, vals);
  g_ctor = 0; g_dtor = 0;
  {
    L c(a);
    NV_CHECK(equals_model(c, n, vals) && equals_model(a, n, vals), "List(const List&): equal contents, source unchanged");
    if(n > 0) { c._begin.item->value.v = vals[0] + 1; NV_CHECK(a._begin.item->value.v == vals[0], "copy is deep: modifying the copy leaves the source"); }
    c._begin.item->value.v = vals[0];
    g_ctor = 0; g_dtor = 0;
  }
  NV_REACH("b_copy.return");
}

void h_b_assign()
{
  NV_LIST_INPUTS();
  NV_INPUT(usize, m); NV_INPUT_ARR(int, w, 3); NV_INPUT(bool, self); NV_ASSUME(m <= NV_BK);
#ifdef NV_ALIAS
  NV_ASSUME(self == (NV_ALIAS != 0));
#endif
  L a; fill(a, n, vals);
  L c; fill(c, m, w);
#if defined(NV_ALIAS) && NV_ALIAS
  L* src = &c;
#elif defined(NV_ALIAS)
  L* src = &a;
#else
  L* src = self ? &c : &a;
#endif
  g_ctor = 0; g_dtor = 0;
  c = *src;
  if(self) { NV_CHECK(equals_model(c, m, w), "List a = a keeps the contents"); NV_REACH("b_assign.self"); }
  else { NV_CHECK(equals_model(c, n, vals) && equals_model(a, n, vals), "List::operator=: contents of the source, source unchanged");
         NV_REACH("b_assign.other"); }
}

void h_b_clear_find_eq()
{
  NV_LIST_INPUTS();
  NV_INPUT(int, needle);
  L a; fill(a, n, vals);
  L c; fill(c, n, vals);
  NV_CHECK(a == c && !(a != c), "List::operator==: equal sequences compare equal");
  Tr t; t.v = needle;
  List<Tr>::Iterator f = a.find(t);
  bool found = false; usize idx = 0;
  for(usize i = 0; i < 3; i++) if(i < n && !found && vals[i] == needle) { found = true; idx = i; }
  const Item* it = a._begin.item;
  for(usize i = 0; i < 3; i++) if(i < idx) it = it->next;
  NV_CHECK(found ? f.item == it : f.item == &a.endItem, "List::find: first matching element, end() otherwise");
  if(n > 0) { c._begin.item->value.v = vals[0] + 1; NV_CHECK(a != c, "List::operator!=: a differing element is noticed"); }
  g_ctor = 0; g_dtor = 0;
  a.clear();
  NV_CHECK(equals_model(a, 0, vals), "List::clear: empty");
  t.v = 7; a.append(t);
  int seven[3] = {7, 0, 0};
  NV_CHECK(equals_model(a, 1, seven), "List usable after clear (free items reused)");
  NV_REACH("b_clear_find_eq.return");
}

void h_b_sort()
{
  NV_LIST_INPUTS();
  L a; fill(a, n, vals);
  g_ctor = 0; g_dtor = 0;
  a.sort();
  bool asc = true; const Item* it = a._begin.item;
  for(usize i = 0; i + 1 < 3; i++) if(i + 1 < n) { asc = asc && !(it->next->value < it->value); it = it->next; }
  // permutation: every input value occurs as often as before
  bool perm = a.size() == n;
  for(usize i = 0; i < 3; i++) if(i < n)
  {
    int cin = 0, cout = 0; const Item* p = a._begin.item;
    for(usize j = 0; j < 3; j++) if(j < n) { cin += vals[j] == vals[i]; cout += p->value.v == vals[i]; p = p->next; }
    perm = perm && cin == cout;
  }
  NV_CHECK(asc && perm, "List::sort: ascending permutation of the previous contents");
  NV_REACH("b_sort.return");
}

// sort of a hand-built list of exactly NV_SORTN elements (no append loops: keeps the model small)
#ifndef NV_SORTN
#define NV_SORTN 2
#endif
void h_b_sortn()
{
  NV_INPUT_ARR(long, vals, NV_SORTN);
  L* l = raw_list();
  Item* it[NV_SORTN];
  for(int i = 0; i < NV_SORTN; i++) { it[i] = raw_item(); it[i]->value.v = vals[i]; }
  for(int i = 0; i < NV_SORTN; i++) { it[i]->prev = i ? it[i - 1] : (Item*)0; it[i]->next = i + 1 < NV_SORTN ? it[i + 1] : &l->endItem; }
  l->_begin.item = it[0]; l->endItem.prev = it[NV_SORTN - 1]; l->_size = NV_SORTN; l->freeItem = 0; l->blocks = 0;
  l->sort();
  bool asc = true, perm = true;
  const Item* p = l->_begin.item;
  for(int i = 0; i + 1 < NV_SORTN; i++) { asc = asc && !(p->next->value < p->value); p = p->next; }
  for(int i = 0; i < NV_SORTN; i++)
  {
    int cin = 0, cout = 0; const Item* q = l->_begin.item;
    for(int j = 0; j < NV_SORTN; j++) { cin += vals[j] == vals[i]; cout += q->value.v == vals[i]; q = q->next; }
    perm = perm && cin == cout;
  }
  NV_CHECK(asc && perm && l->_size == NV_SORTN, "List::sort: ascending permutation (hand-built list)");
  NV_REACH("b_sortn.return");
}

void h_b_append_list()
{
  NV_LIST_INPUTS();
  NV_INPUT(usize, m); NV_INPUT_ARR(int, w, 3); NV_ASSUME(m <= 2 && n <= 2);
  L a; fill(a, n, vals);
  L c; fill(c, m, w);
  a.append(c);
  int all[4] = {0, 0, 0, 0};
  for(usize i = 0; i < 2; i++) if(i < n) all[i] = vals[i];
  for(usize i = 0; i < 2; i++) if(i < m) all[n + i] = w[i];
  bool ok = a.size() == n + m; const Item* it = a._begin.item;
  for(usize i = 0; i < 4; i++) if(i < n + m) { ok = ok && it != &a.endItem && it->value.v == all[i]; it = it->next; }
  NV_CHECK(ok && it == &a.endItem && equals_model(c, m, w), "List::append(const List&): concatenation, argument unchanged");
  NV_REACH("b_append_list.return");
}

} // extern "C"
