// C03 / C04 -- Array<T>: ONE operation on a hand-built array (raw storage block of capacity 3 with
// n <= 3 live elements of symbolic value), instead of a whole history of appends: the growth path
// (3 -> 7) is taken whenever the operation needs a 4th slot.  The Array object itself lives in raw
// memory, so ~Array() is never instantiated (no compat rule needed).  Element class named `T`:
// goto-cc resolves the pseudo-destructor calls `i->~T()` by name (probe P35).
#define private public
#include <nstd/Array.hpp>
#undef private
#include "nvh.h"

extern "C" { long g_live; }
struct T
{
  long v;
  T() : v(0) { ++g_live; }
  T(long a) : v(a) { ++g_live; }
  T(const T& o) : v(o.v) { ++g_live; }
  ~T() { --g_live; }
  T& operator=(const T& o) { v = o.v; return *this; }
  bool operator==(const T& o) const { return v == o.v; }
  bool operator!=(const T& o) const { return v != o.v; }
};
typedef Array<T> A;
#define CAP 3

static A* raw_array(usize n, const long* vals)
{
  A* a = (A*)new char[sizeof(A)];
  T* st = (T*)new char[sizeof(T) * CAP];
  for(usize i = 0; i < CAP; i++) if(i < n) st[i].v = vals[i];
  a->_begin.item = st; a->_end.item = st + n; a->_capacity = CAP;
  return a;
}
static bool holds(const A* a, usize n, const long* m)
{
  if(a->size() != n || n > a->_capacity) return false;
  for(usize i = 0; i < 8; i++) if(i < n && a->_begin.item[i].v != m[i]) return false;
  return true;
}
#define NV_STEP_INPUTS() NV_INPUT(usize, n); NV_INPUT_ARR(long, vals, CAP); NV_ASSUME(n <= CAP); A* a = raw_array(n, vals); g_live = (long)n; long m[8]; \
  for(usize i = 0; i < CAP; i++) m[i] = vals[i]

extern "C" {
// append(const T&), argument foreign or an element of the array itself
void h_s_append()
{
  NV_STEP_INPUTS(); NV_INPUT(bool, own); NV_INPUT(usize, j); NV_INPUT(long, fv);
  NV_ASSUME(!own || j < n);
  T foreign(fv);
  const T* arg = &foreign; if(own) arg = a->_begin.item + j; // (a reference-typed ?: crashes cbmc)
  T* r = &a->append(*arg);
  m[n] = own ? vals[j] : fv;
  NV_CHECK(holds(a, n + 1, m) && r == a->_begin.item + n, "Array::append(value): old elements kept, value appended (as if copied first), reference to the new element");
  NV_CHECK(g_live == (long)n + 2, "Array::append: one construction per element moved or added, moved-from elements destroyed once");
  if(own && n == CAP) { NV_REACH("s_append.own_element_grows"); }
  if(!own && n < CAP) { NV_REACH("s_append.fits"); }
}
// append(const Array&), argument foreign or the array itself
void h_s_append_array()
{
  NV_STEP_INPUTS(); NV_INPUT(bool, self); NV_INPUT(usize, k); NV_INPUT_ARR(long, wals, CAP);
  NV_ASSUME(k <= CAP);
  A* b = a; if(!self) b = raw_array(k, wals);
  usize bn = self ? n : k;
  if(!self) g_live += (long)k;
  for(usize i = 0; i < CAP; i++) if(i < bn) m[n + i] = self ? vals[i] : wals[i];
  a->append(*b);
  NV_CHECK(holds(a, n + bn, m), "Array::append(array): old elements followed by the argument's elements (as if copied first)");
  NV_CHECK(self || holds(b, k, wals), "Array::append(array): the argument is unchanged");
  NV_CHECK(g_live == (long)(n + bn + (self ? 0 : k)), "Array::append(array): live elements == size()");
  if(self && n == CAP) { NV_REACH("s_append_array.self_grows"); }
  if(!self && n + k <= CAP && k > 0) { NV_REACH("s_append_array.fits"); }
}
// operator=(const Array&) incl. the array itself; copy construction
void h_s_assign()
{
  NV_STEP_INPUTS(); NV_INPUT(bool, self); NV_INPUT(usize, k); NV_INPUT_ARR(long, wals, CAP);
  NV_ASSUME(k <= CAP);
  A* b = a; if(!self) b = raw_array(k, wals);
  if(!self) g_live += (long)k;
  A* r = &(*a = *b);
  NV_CHECK(r == a && (self ? holds(a, n, vals) : (holds(a, k, wals) && holds(b, k, wals))), "Array::operator=: contents of the source (assignment to itself keeps the contents), source unchanged");
  NV_CHECK(g_live == (long)(self ? n : 2 * k), "Array::operator=: old elements destroyed once, one construction per copied element");
  NV_CHECK(self || k == 0 || a->_begin.item != b->_begin.item, "Array::operator=: deep copy");
  if(self && n == 2) { NV_REACH("s_assign.self"); }
  if(!self && k == CAP && n == 1) { NV_REACH("s_assign.other"); }
}
// remove(index) / remove(iterator)
void h_s_remove()
{
  NV_STEP_INPUTS(); NV_INPUT(usize, idx); NV_INPUT(bool, byIt);
  NV_ASSUME(n >= 1 && idx < n);
  usize w = 0; long mm[8];
  for(usize i = 0; i < CAP; i++) if(i < n && i != idx) mm[w++] = vals[i];
  T* ret = a->_begin.item + idx;
  if(byIt) { Array<T>::Iterator it(a->_begin.item + idx); ret = a->remove(it).item; } else a->remove(idx);
  NV_CHECK(holds(a, n - 1, mm) && ret == a->_begin.item + idx, "Array::remove: reference sequence without the element; iterator designates its successor");
  NV_CHECK(g_live == (long)n - 1, "Array::remove: exactly one element destroyed");
  if(n == CAP && idx == 1) { NV_REACH("s_remove.middle"); }
}
// resize(size, value) up (value foreign or own element) / down; clear
void h_s_resize()
{
  NV_STEP_INPUTS(); NV_INPUT(usize, to); NV_INPUT(bool, own); NV_INPUT(usize, j); NV_INPUT(long, fv);
  NV_ASSUME(to <= CAP + 1 && (!own || j < n));
  T foreign(fv);
  long val = own ? vals[j] : fv;
  const T* arg = &foreign; if(own) arg = a->_begin.item + j;
  a->resize(to, *arg);
  for(usize i = 0; i < 8; i++) if(i >= n) m[i] = val;
  NV_CHECK(holds(a, to, m), "Array::resize: prefix kept, new elements copies of the value (as if copied first)");
  NV_CHECK(g_live == (long)to + 1, "Array::resize: live elements == size()");
  if(own && n == CAP && to == CAP + 1) { NV_REACH("s_resize.own_element_grows"); }
  if(to < n) { NV_REACH("s_resize.shrink"); }
  a->clear();
  NV_CHECK(a->size() == 0 && g_live == 1, "Array::clear: every element destroyed exactly once");
}
} // extern "C"
