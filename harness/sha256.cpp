// C17 -- SHA-256 / HMAC: harness entries and predicates.  The verified text is the tree copy
// of src/Crypto/Sha256.cpp (compat rule R5 only), included here so that the private nested
// class is reachable.
#define private public
#include <Crypto/Sha256.cpp>
#undef private
#include "nvh.h"
#include "fips180.h"

extern "C" {

// ---------------------------------------------------------------- ghost tables
// Two "expected compression" slots: for slot s the harness fixes an input chaining value
// g_H[s], a message block g_M[s], and computes -- with the FIPS 180-4 spec functions -- the
// table g_S[s][t] of working variables after t rounds and the message schedule g_W[s].
// The contracts of Transform / WriteByteBlock say: called on (g_H[s], g_M[s]) the state
// becomes g_H[s] + g_S[s][64]; the loop invariants of Transform follow the tables row by row.
fips_u32 g_H[2][8];
fips_u32 g_M[2][16];
fips_u8 g_B[2][64];   // the 64 bytes g_M[s] was parsed from (WriteByteBlock level)
fips_u32 g_S[2][65 * 8]; // row t of slot s at g_S[s][8*t .. 8*t+7]
fips_u32 g_W[2][64];
fips_u8 g_digest[32]; // expected digest (finalize)
fips_u8 g_pad[128];   // FIPS 180-4 5.1.1 padded final block(s) (finalize)
int g_blocks;         // 1 or 2 of them
unsigned g_r;         // bytes buffered before finalize = count mod 64
unsigned long long g_lenbits; // message length in bits modulo 2^64

static void slot_fill(int s, const fips_u32 H[8], const fips_u32 M[16])
{
  for(int k = 0; k < 8; k++) g_H[s][k] = H[k];
  for(int i = 0; i < 16; i++) g_M[s][i] = M[i];
  fips_tables(g_H[s], g_M[s], g_S[s], g_W[s]);
}
static void slot_fill_bytes(int s, const fips_u32 H[8], const fips_u8 B[64])
{
  fips_u32 M[16];
  for(int i = 0; i < 64; i++) g_B[s][i] = B[i];
  fips_parse_block(B, M); // FIPS 180-4 5.2.1
  slot_fill(s, H, M);
}
static void slot_copy(int d, int s)
{
  for(int i = 0; i < 64; i++) g_B[d][i] = g_B[s][i];
  for(int k = 0; k < 8; k++) g_H[d][k] = g_H[s][k];
  for(int i = 0; i < 16; i++) g_M[d][i] = g_M[s][i];
  for(int t = 0; t < 65 * 8; t++) g_S[d][t] = g_S[s][t];
  for(int t = 0; t < 64; t++) g_W[d][t] = g_W[s][t];
}

// ---------------------------------------------------------------- predicates
bool sha_data_match(const fips_u32* data, int s)
{
  for(int i = 0; i < 16; i++) if(data[i] != g_M[s][i]) return false;
  return true;
}
bool sha_state_match(const fips_u32* state, int s)
{
  for(int k = 0; k < 8; k++) if(state[k] != g_H[s][k]) return false;
  return true;
}
bool sha_state_is(const fips_u32* state, int s)
{
  for(int k = 0; k < 8; k++) if(state[k] != (fips_u32)(g_H[s][k] + g_S[s][64 * 8 + k])) return false;
  return true;
}
// NB: predicates used in contract clauses are not instrumented by DFCC and therefore must not
// call helpers that instrumented code calls too -- they are written with plain loops.
bool sha_block_match(const Sha256* p, int s)
{
  for(int k = 0; k < 8; k++) if(p->state[k] != g_H[s][k]) return false;
  for(int i = 0; i < 64; i++) if(p->buffer[i] != g_B[s][i]) return false;
  return true;
}
bool sha_buffer_match(const Sha256* p, int s)
{
  for(int i = 0; i < 64; i++) if(p->buffer[i] != g_B[s][i]) return false;
  return true;
}
bool sha_is_reset(const Sha256* p)
{
  for(int k = 0; k < 8; k++) if(p->state[k] != fips_H0[k]) return false;
  return p->count == 0;
}
bool sha_digest_is(const byte* d)
{
  for(int i = 0; i < 32; i++) if(d[i] != g_digest[i]) return false;
  return true;
}

void h_layout()
{
  Sha256* z = 0;
  NV_CHECK((usize)&z->state == 0 && (usize)&z->count == 32 && (usize)&z->buffer == 40 && sizeof(Sha256) >= 104,
           "layout Sha256 == struct Sha256_L");
}

// -------------------------------------------------------------- Transform(state, data)
void h_transform()
{
  NV_INPUT_ARR(uint32, st, 8);
  NV_INPUT_ARR(uint32, m, 16);
  slot_fill(0, st, m);
  slot_copy(1, 0);
  NV_PRE(sha_state_match(st, 0) && sha_data_match(m, 0));
  Sha256::Private::Transform(st, m);
  NV_POST("Transform == FIPS 180-4 compression", sha_state_is(st, 0));
  NV_REACH("transform.return");
}

// -------------------------------------------------------------- WriteByteBlock(p)
void h_wbb()
{
  Sha256 s;
  NV_INPUT_ARR(uint32, st, 8);
  NV_INPUT_ARR(byte, blk, 64);
  NV_INPUT(uint64, cnt);
  for(int k = 0; k < 8; k++) s.state[k] = st[k];
  for(int i = 0; i < 64; i++) s.buffer[i] = blk[i];
  s.count = cnt;
  slot_fill_bytes(0, st, blk);
  slot_copy(1, 0);
  NV_PRE(sha_block_match(&s, 0));
  Sha256::Private::WriteByteBlock(&s);
  NV_POST("WriteByteBlock == compression of the big-endian parsed buffer", sha_state_is(s.state, 0) && s.count == cnt);
  NV_REACH("wbb.return");
}


// -------------------------------------------------------------- frame-only (safety) units
void h_transform_frame()
{
  NV_INPUT_ARR(uint32, st, 8);
  NV_INPUT_ARR(uint32, m, 16);
  Sha256::Private::Transform(st, m);
  NV_REACH("transform_frame.return");
}

void h_wbb_frame()
{
  Sha256 s;
  NV_INPUT_ARR(byte, blk, 64);
  for(int i = 0; i < 64; i++) s.buffer[i] = blk[i];
  Sha256::Private::WriteByteBlock(&s);
  NV_REACH("wbb_frame.return");
}

// -------------------------------------------------------------- reset() / Sha256()
void h_reset()
{
  Sha256* s = (Sha256*)new char[sizeof(Sha256)]; // raw storage: the constructor calls reset() itself
  NV_INPUT_ARR(uint32, st, 8);
  NV_INPUT(uint64, cnt);
  for(int k = 0; k < 8; k++) s->state[k] = st[k];
  s->count = cnt;
  s->reset();
  NV_POST("reset() establishes the FIPS initial hash value and count 0", sha_is_reset(s));
  NV_REACH("reset.return");
  delete[] (char*)s;
}

void h_ctor()
{
  Sha256 s;
  NV_CHECK(sha_is_reset(&s), "Sha256() establishes the FIPS initial hash value and count 0");
  NV_REACH("ctor.return");
}

// -------------------------------------------------------------- update(data, size), any size
// safety and bookkeeping for every length: reads exactly data[0..size), writes only *this,
// count advances by size, the loop terminates.
usize g_size0;
uint64 g_count0;
const byte* g_data0;
bool sha_update_counts(const Sha256* p) { return p->count == g_count0 + g_size0; }

void h_update_any()
{
  Sha256 s;
  NV_INPUT_ARR(uint32, st, 8);
  NV_INPUT(uint64, cnt);
  NV_INPUT(usize, n);
  NV_ASSUME(n <= NV_MAXSZ);
  for(int k = 0; k < 8; k++) s.state[k] = st[k];
  s.count = cnt;
  byte* data = (byte*)new char[n + 1];
  g_size0 = n; g_count0 = cnt; g_data0 = data;
  s.update(data, n);
  NV_POST("update: count advanced by size", sha_update_counts(&s));
  NV_REACH("update_any.return");
  delete[] (char*)data;
}

// -------------------------------------------------------------- update(&b, 1): one absorbed byte
// == the spec step: buffer[count mod 64] = b; count++; at a block boundary the state becomes the
// FIPS compression of the state with the parsed buffer.
fips_u32 g_exp_state[8];
uint64 g_exp_count;
fips_u8 g_exp_buffer[64];
bool sha_object_is_expected(const Sha256* p)
{
#ifndef NV_X1
  for(int k = 0; k < 8; k++) if(p->state[k] != g_exp_state[k]) return false;
#endif
#ifndef NV_X2
  for(int i = 0; i < 64; i++) if(p->buffer[i] != g_exp_buffer[i]) return false;
#endif
  return p->count == g_exp_count;
}

void h_update_step()
{
  Sha256 s;
  NV_INPUT_ARR(uint32, st, 8);
  NV_INPUT_ARR(byte, blk, 64);
  NV_INPUT(uint64, cnt);
  NV_INPUT(byte, b);
  for(int k = 0; k < 8; k++) s.state[k] = st[k];
  for(int i = 0; i < 64; i++) s.buffer[i] = blk[i];
  s.count = cnt;
  // spec: absorb one byte
  for(int i = 0; i < 64; i++) g_exp_buffer[i] = blk[i];
  g_exp_buffer[cnt & 63] = b;
  g_exp_count = cnt + 1;
  slot_fill_bytes(0, st, g_exp_buffer);
  slot_copy(1, 0);
  bool boundary = ((cnt + 1) & 63) == 0;
  for(int k = 0; k < 8; k++) g_exp_state[k] = boundary ? (fips_u32)(st[k] + g_S[0][64 * 8 + k]) : st[k];
  g_size0 = 1; g_count0 = cnt;
  s.update(&b, 1);
  NV_POST("update of one byte == FIPS absorb step", sha_object_is_expected(&s));
  if(boundary) { NV_REACH("update_step.block"); }
  if(!boundary) { NV_REACH("update_step.buffered"); }
}

// -------------------------------------------------------------- finalize(digest)
void h_finalize()
{
  Sha256 s;
  NV_INPUT_ARR(uint32, st, 8);
  NV_INPUT_ARR(byte, blk, 64);
#ifdef NV_CNT
  const uint64 cnt = NV_CNT; // concrete count: every loop of finalize unrolls without a loop contract
#else
  NV_INPUT(uint64, cnt);
#endif
  for(int k = 0; k < 8; k++) s.state[k] = st[k];
  for(int i = 0; i < 64; i++) s.buffer[i] = blk[i];
  s.count = cnt;
  // spec: FIPS 180-4 5.1.1 padding of the buffered tail, then one or two compressions
  fips_u8* pad = g_pad;
  int blocks = fips_pad(blk, cnt, pad);
  g_blocks = blocks; g_r = (unsigned)(cnt & 63); g_lenbits = cnt << 3;
  fips_u32 H1[8];
  slot_fill_bytes(0, st, pad);
  for(int k = 0; k < 8; k++) H1[k] = st[k] + g_S[0][64 * 8 + k];
  if(blocks == 2)
  {
    slot_fill_bytes(1, H1, pad + 64);
    for(int k = 0; k < 8; k++) H1[k] = H1[k] + g_S[1][64 * 8 + k];
  }
  else
    slot_copy(1, 0);
  for(int k = 0; k < 8; k++)
  {
    g_digest[4 * k] = (fips_u8)(H1[k] >> 24); g_digest[4 * k + 1] = (fips_u8)(H1[k] >> 16);
    g_digest[4 * k + 2] = (fips_u8)(H1[k] >> 8); g_digest[4 * k + 3] = (fips_u8)H1[k];
  }
  byte out[32];
  s.finalize(out);
  NV_POST("finalize == FIPS padding + compression, object reset", sha_digest_is(out) && sha_is_reset(&s));
  if(blocks == 2) { NV_REACH("finalize.two_blocks"); }
  if(blocks == 1) { NV_REACH("finalize.one_block"); }
}


// -------------------------------------------------------------- hash(): bounded glue
// For a fixed length NV_LEN and split point NV_SP (one unit per padding boundary / chunking),
// symbolic content: update(msg[0..sp)) ; update(msg[sp..n)) ; finalize  ==  FIPS 180-4 hash, with the
// compression function abstracted by its contract.  Then the SAME object is reused for a second
// hash of the same message (reuse after finalize).
#ifndef NV_LEN
#define NV_LEN 0
#endif
#ifndef NV_SP
#define NV_SP 0
#endif
void h_hash_glue()
{
  NV_INPUT_ARR(byte, msg, NV_LEN + 1);
  const usize sp = NV_SP; // split point (concrete per unit: keeps count, and with it every loop, concrete)
  // spec: pad the whole message (NV_LEN <= 119: at most two blocks)
  fips_u8 padded[128];
  for(int i = 0; i < 128; i++) padded[i] = 0;
  unsigned full = NV_LEN >= 64 ? 64 : 0; // bytes in complete blocks
  fips_u8 tail[64];
  for(unsigned i = 0; i < 64; i++) tail[i] = i < NV_LEN - full ? msg[full + i] : 0;
  fips_u8 tailpad[128];
  int tb = fips_pad(tail, NV_LEN, tailpad);
  int nblocks;
  if(full)
  {
    for(int i = 0; i < 64; i++) padded[i] = msg[i];
    for(int i = 0; i < 64; i++) padded[64 + i] = tailpad[i];
    nblocks = 2; // NV_LEN in [64, 119] => tb == 1
  }
  else
  {
    for(int i = 0; i < 128; i++) padded[i] = tailpad[i];
    nblocks = tb;
  }
  fips_u32 H[8];
  for(int k = 0; k < 8; k++) H[k] = fips_H0[k];
  slot_fill_bytes(0, H, padded);
  for(int k = 0; k < 8; k++) H[k] = H[k] + g_S[0][64 * 8 + k];
  if(nblocks == 2)
  {
    slot_fill_bytes(1, H, padded + 64);
    for(int k = 0; k < 8; k++) H[k] = H[k] + g_S[1][64 * 8 + k];
  }
  else
    slot_copy(1, 0);
  for(int k = 0; k < 8; k++)
  {
    g_digest[4 * k] = (fips_u8)(H[k] >> 24); g_digest[4 * k + 1] = (fips_u8)(H[k] >> 16);
    g_digest[4 * k + 2] = (fips_u8)(H[k] >> 8); g_digest[4 * k + 3] = (fips_u8)H[k];
  }
  Sha256 s;
  byte out[32], out2[32];
  s.update(msg, sp);
  s.update(msg + sp, NV_LEN - sp);
  s.finalize(out);
  NV_CHECK(sha_digest_is(out), "chunked update + finalize == FIPS 180-4 hash of the concatenation");
#if NV_LEN < 56
  s.update(msg, NV_LEN);
  s.finalize(out2);
  NV_CHECK(sha_digest_is(out2), "hasher reused after finalize gives the same digest");
#endif
  NV_REACH("hash_glue.return");
}

// -------------------------------------------------------------- hmac(key, keySize, message, messageSize, result)
// update/finalize are replaced by the ABSTRACT-HASH interface contract: update appends its bytes
// to the message of the object, finalize returns the hash of that message (an uninterpreted
// 32-byte value) and resets.  The expected call sequence below is RFC 2104 with B = 64.
int g_step;                 // next expected call (0,1: key hashing; 2..7: inner and outer hash)
const Sha256* g_self;       // the one hasher object
const byte* g_key; usize g_keySize; const byte* g_msg; usize g_msgSize;
byte g_d[3][32];            // abstract digests: H(key), inner hash, outer hash

static byte hmac_k0(usize i) // RFC 2104 step (1)-(2): key hashed when longer than B, zero padded to B
{
  if(g_keySize > 64) return i < 32 ? g_d[0][i] : (byte)0;
  return i < g_keySize ? g_key[i] : (byte)0;
}
bool hmac_update_ok(const Sha256* self, const byte* data, usize size)
{
  if(g_step != 0 && g_step != 2 && self != g_self) return false;
  if(g_step == 0) return g_keySize > 64 && data == g_key && size == g_keySize;
  if(g_step == 2 || g_step == 5)
  {
    if(size != 64) return false;
    for(usize i = 0; i < 64; i++) if(data[i] != (byte)(hmac_k0(i) ^ (g_step == 2 ? 0x36 : 0x5c))) return false;
    return true;
  }
  if(g_step == 3) return data == g_msg && size == g_msgSize;
  if(g_step == 6)
  {
    if(size != 32) return false;
    for(usize i = 0; i < 32; i++) if(data[i] != g_d[1][i]) return false;
    return true;
  }
  return false;
}
bool hmac_finalize_ok(const Sha256* self) { return (g_step == 1 || g_step == 4 || g_step == 7) && self == g_self; }
bool hmac_digest_written(const byte* digest, int step)
{
  int idx = step == 1 ? 0 : step == 4 ? 1 : 2;
  for(int i = 0; i < 32; i++) if(digest[i] != g_d[idx][i]) return false;
  return true;
}
bool hmac_post(const byte* result)
{
  if(g_step != 8) return false;
  for(int i = 0; i < 32; i++) if(result[i] != g_d[2][i]) return false;
  return true;
}

void h_hmac()
{
  NV_INPUT(usize, keySize);
  NV_INPUT(usize, msgSize);
  NV_ASSUME(keySize <= NV_MAXSZ && msgSize <= NV_MAXSZ);
  byte* key = (byte*)new char[keySize + 1];
  byte* msg = (byte*)new char[msgSize + 1];
  for(int j = 0; j < 3; j++) for(int i = 0; i < 32; i++) g_d[j][i] = nondet_byte();
  g_key = key; g_keySize = keySize; g_msg = msg; g_msgSize = msgSize;
  g_step = keySize > 64 ? 0 : 2;
  g_self = 0;
  byte result[32];
  Sha256::hmac(key, keySize, msg, msgSize, result);
  NV_CHECK(hmac_post(result), "hmac == RFC 2104: H((K0 ^ opad) || H((K0 ^ ipad) || message)) over the abstract hash");
  if(keySize > 64) { NV_REACH("hmac.long_key"); }
  if(keySize == 64) { NV_REACH("hmac.block_key"); }
  if(keySize < 64) { NV_REACH("hmac.short_key"); }
  delete[] (char*)key;
  delete[] (char*)msg;
}

} // extern "C"
