// C13 -- Server client write path: ClientImpl::write, the write-ready branch of Server::Private::run
// (carried by the synthetic member nv_write_ready, see engine/compat.py), suspend and resume.
// The operating system is a contract: Socket::send accepts any prefix (or fails / would block);
// what it accepted is logged in ghost state.  stream = bytes accepted by the OS ++ backlog.
#define private public
#define protected public
#include <Socket/Server.write.slice.cpp>
#undef private
#undef protected
#include "nvh.h"

typedef Server::Private::ClientImpl ClientImpl;

extern "C" {
// ---------------------------------------------------------------- ghost state
usize g_woff, g_woff2, g_cmp_wit, g_cmp_k; // contracts/memory.c
usize g_os_len;      // bytes the OS has accepted from this client so far
usize g_pos;         // watched position in the client's output stream (universally quantified)
bool g_os_has;       // the watched byte has been handed to the OS ...
byte g_os_byte;      // ... with this value
int g_send_calls;    // calls of Socket::send in the operation under test
long g_send_ret;     // its last result
int g_poll_sets, g_poll_removes; unsigned g_poll_flags; const void* g_poll_sock; // Socket::Poll::set / remove
const void* g_closing; // client queued for onClosed (HashSet append hook)
int g_onWrite, g_onClosed, g_onRead;

// model values computed by the harness before the call
usize g_os0, g_backlog0, g_size; bool g_suspended0; const byte* g_data; byte g_exp_byte; bool g_exp_has;
ClientImpl* g_client;
usize* g_postponed;
void* gv_client; void* gv_buf; // untyped copies for contracts/server.c (client object, its old backlog storage)

void nv_closing_append(const void* client) { g_closing = client; }
void nv_cb_onClosed(void* callback) { if(callback) g_onClosed++; }
void nv_cb_onWrite(void* callback) { if(callback) g_onWrite++; }
} // extern "C"

// dependency seams: the socket descriptor plays no role in the write path; the poll set is a recorder
Socket::Socket() {}
Socket::~Socket() {}
void Socket::Poll::set(Socket& socket, uint flags) { g_poll_sets++; g_poll_flags = flags; g_poll_sock = &socket; }
void Socket::Poll::remove(Socket& socket) { g_poll_removes++; g_poll_sock = &socket; }

struct Recorder : public Server::Client::ICallback
{
  virtual void onRead() { g_onRead++; }
  virtual void onWrite() { g_onWrite++; }
  virtual void onClosed() { g_onClosed++; }
};

extern "C" {

static bool buffer_wf(const Buffer* b)
{
  if(b->buffer)
    return NV_SAME_OBJECT(b->buffer, b->bufferStart) && NV_SAME_OBJECT(b->buffer, b->bufferEnd) && b->buffer <= b->bufferStart &&
           b->bufferStart <= b->bufferEnd && b->bufferEnd <= b->buffer + b->_capacity && NV_IS_DYNAMIC(b->buffer) &&
           NV_OBJECT_SIZE_IS(b->buffer, b->_capacity + 1) && NV_OFFSET_IS(b->buffer, 0) && b->_capacity <= NV_MAXSZ && *b->bufferEnd == 0;
  return b->bufferStart == (const byte*)&b->_capacity && b->bufferEnd == b->bufferStart && b->_capacity == 0;
}

// byte of the output stream at the watched position, if this run can see it
static bool stream_byte_ok(const ClientImpl* c)
{
  if(!g_exp_has) return true;
  const Buffer* b = &c->_sendBuffer;
  if(g_pos < g_os_len) return g_os_has && g_os_byte == g_exp_byte;
  usize i = g_pos - g_os_len;
  if(i >= (usize)(b->bufferEnd - b->bufferStart)) return false;
  if(NV_OFFSET(b->bufferStart) + i != g_woff) return true; // not the position followed through Memory::copy in this run
  return b->bufferStart[i] == g_exp_byte;
}

// write(data, size, &postponed)
bool post_write(bool ret)
{
  const ClientImpl* c = g_client;
  const Buffer* b = &c->_sendBuffer;
  if(!buffer_wf(b) || c->_suspended != g_suspended0) return false;
  usize backlog = b->bufferEnd - b->bufferStart;
  if(g_send_calls != (g_backlog0 == 0 ? 1 : 0)) return false; // never overtake a backlog
  if(!ret) // refused: nothing accepted, client queued for onClosed
    return g_backlog0 == 0 && backlog == 0 && g_os_len == g_os0 && g_closing == (const void*)c && *g_postponed == 0 && g_poll_sets == 0;
  if(g_os_len + backlog != g_os0 + g_backlog0 + g_size) return false;      // nothing lost, nothing duplicated
  if(*g_postponed != backlog) return false;                                   // postponed == bytes not yet handed to the OS
  if(g_closing != 0) return false;
  if(g_backlog0 == 0 && backlog > 0) // a backlog appeared: write readiness requested, read interest kept unless suspended
  {
    if(g_poll_sets != 1 || g_poll_sock != (const void*)(const Socket*)c) return false;
    if(g_poll_flags != (g_suspended0 ? (unsigned)Socket::Poll::writeFlag : (unsigned)(Socket::Poll::readFlag | Socket::Poll::writeFlag))) return false;
  }
  else if(g_poll_sets != 0) return false;
  return stream_byte_ok(c) && g_onWrite == 0 && g_onClosed == 0;
}

// write-ready event
bool post_write_ready()
{
  const ClientImpl* c = g_client;
  const Buffer* b = &c->_sendBuffer;
  if(!buffer_wf(b) || c->_suspended != g_suspended0) return false;
  usize backlog = b->bufferEnd - b->bufferStart;
  if(g_send_calls != (g_backlog0 == 0 ? 0 : 1)) return false;
  bool failed = g_send_calls == 1 && (g_send_ret == 0 || (g_send_ret == -1 && g_onClosed == 1));
  if(g_onClosed) // failed send: connection given up, onClosed delivered once, socket removed from the poll set
    return failed && g_onClosed == 1 && g_poll_removes == 1 && g_onWrite == 0 && backlog == 0;
  if(g_poll_removes != 0) return false;
  if(g_os_len + backlog != g_os0 + g_backlog0) return false;                 // stream unchanged
  if(!stream_byte_ok(c)) return false;
  if(backlog == 0 && !(g_send_calls == 1 && g_send_ret == -1)) // drained: onWrite once, interest back to read (unless suspended)
    return g_onWrite == 1 && g_poll_sets == 1 && g_poll_flags == (g_suspended0 ? 0u : (unsigned)Socket::Poll::readFlag);
  return g_onWrite == 0 && g_poll_sets == 0;                                  // still pending (or would block): nothing signalled
}

// read(buffer, maxSize, size)
long g_recv_ret; int g_recv_calls; int g_last_error; usize g_maxSize; usize* g_sizep;
bool post_read(bool ret)
{
  const ClientImpl* c = g_client;
  if(g_recv_calls != 1 || c->_suspended != g_suspended0) return false;
  if(ret) return g_recv_ret > 0 && *g_sizep == (usize)g_recv_ret && *g_sizep <= g_maxSize && g_closing == 0;
  if(*g_sizep != 0) return false;
  if(g_recv_ret == -1 && g_last_error == 0) return g_closing == 0;          // would block: try again later
  return (g_recv_ret == 0 || g_recv_ret == -1) && g_closing == (const void*)c; // closed or failed: queued for onClosed
}

// suspend() / resume()
bool post_suspend_resume(bool target)
{
  const ClientImpl* c = g_client;
  usize backlog = c->_sendBuffer.bufferEnd - c->_sendBuffer.bufferStart;
  if(c->_suspended != target || backlog != g_backlog0) return false;
  if(g_suspended0 == target) return g_poll_sets == 0; // no change requested
  unsigned want = target ? (backlog ? (unsigned)Socket::Poll::writeFlag : 0u)
                         : (backlog ? (unsigned)(Socket::Poll::readFlag | Socket::Poll::writeFlag) : (unsigned)Socket::Poll::readFlag);
  return g_poll_sets == 1 && g_poll_flags == want; // a suspended client is never registered for read
}

// one-call wrappers (ClientImpl / Server::Private are nested classes without C spelling)
bool w_client_write(void* c, const byte* data, usize size, usize* postponed) { return ((ClientImpl*)c)->write(data, size, postponed); }
void w_write_ready(void* p, void* c) { ((Server::Private*)p)->nv_write_ready(*(ClientImpl*)c); }
bool w_client_read(void* c, byte* buffer, usize maxSize, usize* size) { return ((ClientImpl*)c)->read(buffer, maxSize, *size); }
void w_client_suspend(void* c) { ((ClientImpl*)c)->suspend(); }
void w_client_resume(void* c) { ((ClientImpl*)c)->resume(); }

} // extern "C"

// ---------------------------------------------------------------- symbolic pre-state
#define NV_CLIENT_INPUTS() \
  NV_INPUT(bool, owned); NV_INPUT(usize, cap); NV_INPUT(usize, head); NV_INPUT(usize, sz); NV_INPUT(bool, suspended); \
  NV_INPUT(usize, os0); NV_INPUT(usize, pos); NV_INPUT(usize, woff); NV_INPUT(usize, woff2); NV_INPUT(byte, vbyte); \
  NV_ASSUME(cap <= NV_MAXSZ && head <= cap && sz <= cap - head && (owned || sz == 0)); \
  NV_ASSUME(os0 <= NV_MAXSZ)

static ClientImpl* make_client(Recorder& g_rec, Server::Private*& P, bool owned, usize cap, usize head, usize sz, bool suspended)
{
  P = (Server::Private*)new char[sizeof(Server::Private)]; // raw storage: only _sockets/_closingClients are reached, both seams
  ClientImpl* c = new ClientImpl(*P);
  c->_callback = &g_rec;
  c->_suspended = suspended;
  Buffer& b = c->_sendBuffer;
  if(owned)
  {
    b.buffer = (byte*)new char[cap + 1];
    b._capacity = cap; b.bufferStart = b.buffer + head; b.bufferEnd = b.bufferStart + sz; *b.bufferEnd = 0;
  }
  else { b.buffer = 0; b.bufferStart = b.bufferEnd = (byte*)&b._capacity; b._capacity = 0; }
  return c;
}

static void reset_ghosts(ClientImpl* c, usize os0, usize pos, usize woff, usize woff2, bool suspended)
{
  g_client = c; gv_client = c; gv_buf = c->_sendBuffer.buffer; g_os_len = g_os0 = os0; g_pos = pos; g_woff = woff; g_woff2 = woff2; g_suspended0 = suspended;
  g_backlog0 = c->_sendBuffer.size(); g_send_calls = 0; g_send_ret = 0; g_poll_sets = 0; g_poll_removes = 0; g_poll_flags = 0xffff;
  g_poll_sock = 0; g_closing = 0; g_onWrite = 0; g_onClosed = 0; g_onRead = 0; g_os_has = false; g_exp_has = false;
}

// the watched stream byte before the operation: already with the OS, or in the backlog
static void pin_old_stream_byte(ClientImpl* c, byte v)
{
  if(g_pos < g_os0) { g_os_has = true; g_os_byte = v; g_exp_has = true; g_exp_byte = v; }
  else if(g_pos - g_os0 < g_backlog0) { c->_sendBuffer.bufferStart[g_pos - g_os0] = v; g_exp_has = true; g_exp_byte = v; }
}

extern "C" {

void h_write()
{
  NV_CLIENT_INPUTS();
  NV_INPUT(usize, size);
  NV_ASSUME(size <= NV_MAXSZ);
  Server::Private* P;
  Recorder rec;
  ClientImpl* c = make_client(rec, P, owned, cap, head, sz, suspended);
  reset_ghosts(c, os0, pos, woff, woff2, suspended);
  byte* data = (byte*)new char[size + 1];
  g_data = data; g_size = size;
  NV_ASSUME(g_os0 + g_backlog0 + size <= NV_MAXSZ);
  pin_old_stream_byte(c, vbyte);
  if(!g_exp_has && pos - (g_os0 + g_backlog0) < size) { data[pos - (g_os0 + g_backlog0)] = vbyte; g_exp_has = true; g_exp_byte = vbyte; }
  usize postponed = 12345;
  g_postponed = &postponed;
  bool r = w_client_write(c, data, size, &postponed);
  NV_POST("ClientImpl::write: accepted bytes appended to the stream once and in order", post_write(r));
  if(r && g_backlog0 == 0 && c->_sendBuffer.size() > 0 && g_send_ret > 0) { NV_REACH("write.partial"); }
  if(r && g_backlog0 == 0 && g_send_ret == -1) { NV_REACH("write.would_block"); }
  if(r && g_backlog0 > 0) { NV_REACH("write.behind_backlog"); }
  if(!r) { NV_REACH("write.refused"); }
}

void h_write_ready()
{
  NV_CLIENT_INPUTS();
  Server::Private* P;
  Recorder rec;
  ClientImpl* c = make_client(rec, P, owned, cap, head, sz, suspended);
  reset_ghosts(c, os0, pos, woff, woff2, suspended);
  NV_ASSUME(g_os0 + g_backlog0 <= NV_MAXSZ);
  pin_old_stream_byte(c, vbyte);
  w_write_ready(P, c);
  NV_POST("write-ready event: backlog handed to the OS in order, onWrite once drained", post_write_ready());
  if(g_onWrite == 1 && g_backlog0 > 0) { NV_REACH("write_ready.drained"); }
  if(g_onWrite == 0 && g_onClosed == 0 && g_send_ret > 0) { NV_REACH("write_ready.partial"); }
  if(g_onClosed == 1) { NV_REACH("write_ready.closed"); }
}

void h_read()
{
  NV_CLIENT_INPUTS();
  NV_INPUT(usize, maxSize);
  NV_ASSUME(maxSize <= NV_MAXSZ);
  Server::Private* P;
  Recorder rec;
  ClientImpl* c = make_client(rec, P, owned, cap, head, sz, suspended);
  reset_ghosts(c, os0, pos, woff, woff2, suspended);
  byte* buf = (byte*)new char[maxSize + 1];
  usize size = 777;
  g_recv_calls = 0; g_recv_ret = 0; g_maxSize = maxSize; g_sizep = &size;
  bool r = w_client_read(c, buf, maxSize, &size);
  NV_POST("ClientImpl::read: size == bytes received; would-block is no error; closed/failed => queued for onClosed", post_read(r));
  if(r) { NV_REACH("read.data"); }
  if(!r && g_recv_ret == -1 && g_last_error == 0) { NV_REACH("read.would_block"); }
  if(!r && g_recv_ret == 0) { NV_REACH("read.closed"); }
}

void h_suspend()
{
  NV_CLIENT_INPUTS();
  Server::Private* P;
  Recorder rec;
  ClientImpl* c = make_client(rec, P, owned, cap, head, sz, suspended);
  reset_ghosts(c, os0, pos, woff, woff2, suspended);
  w_client_suspend(c);
  NV_POST("suspend(): no read interest while suspended, write interest iff backlog", post_suspend_resume(true));
  if(!suspended) { NV_REACH("suspend.change"); }
}

void h_resume()
{
  NV_CLIENT_INPUTS();
  Server::Private* P;
  Recorder rec;
  ClientImpl* c = make_client(rec, P, owned, cap, head, sz, suspended);
  reset_ghosts(c, os0, pos, woff, woff2, suspended);
  w_client_resume(c);
  NV_POST("resume(): read interest restored, write interest iff backlog", post_suspend_resume(false));
  if(suspended) { NV_REACH("resume.change"); }
}

} // extern "C"
