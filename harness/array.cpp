// C03 / C04 -- Array<T>: bounded whole-array checks (<= 4 elements, values symbolic; the growth
// boundary 3 -> 7 of `_capacity |= 3` lies inside the bound) against a reference sequence, with an
// element type that counts constructions / destructions: every element constructed once, destroyed
// once, never read after its destruction (cbmc's pointer obligations on released storage).
#define private public
#include <nstd/Array.hpp>
#undef private
#include "nvh.h"

extern "C" { long g_live; long g_ctor, g_dtor; }

// The element class is NAMED `T`: goto-cc resolves the pseudo-destructor call `i->~T()` by name
// ("symbol '~T' is unknown" for any other class name); inside Array<T> both are the same type.
struct T
{
  long v;
  T() : v(0) { ++g_ctor; ++g_live; }
  T(long a) : v(a) { ++g_ctor; ++g_live; }
  T(const T& o) : v(o.v) { ++g_ctor; ++g_live; }
  ~T() { ++g_dtor; --g_live; }
  T& operator=(const T& o) { v = o.v; return *this; }
  bool operator==(const T& o) const { return v == o.v; }
  bool operator!=(const T& o) const { return v != o.v; }
};
typedef Array<T> A;

#ifndef NV_AK
#define NV_AK 5
#endif
#ifdef NV_N /* element count fixed per unit: a symbolic count makes the storage size symbolic, which cbmc does not finish */
#define NV_ARRAY_INPUTS() const usize n = NV_N; NV_INPUT_ARR(long, vals, NV_AK)
#else
#define NV_ARRAY_INPUTS() NV_INPUT(usize, n); NV_INPUT_ARR(long, vals, NV_AK); NV_ASSUME(n <= NV_AK)
#endif

static void fill(A& a, usize n, const long* vals)
{
  for(usize i = 0; i < NV_AK; i++) if(i < n) { T t(vals[i]); a.append(t); }
}
static bool equals_model(const A& a, usize n, const long* vals)
{
  if(a.size() != n || a.isEmpty() != (n == 0)) return false;
  for(usize i = 0; i < NV_AK; i++)
    if(i < n && a._begin.item[i].v != vals[i]) return false;
  return n <= a._capacity || n == 0;
}

extern "C" {
// append x n (growth 0 -> 3 -> 7), then destruction: contents, live count, nothing leaked or destroyed twice
void h_b_append()
{
  NV_ARRAY_INPUTS();
  g_live = 0;
  {
    A a;
    fill(a, n, vals);
    NV_CHECK(equals_model(a, n, vals), "Array::append: the reference sequence, in order");
    NV_CHECK(g_live == (long)n, "Array::append / reserve: exactly size() elements alive (moved elements destroyed once)");
    if(n >= 4) { NV_REACH("b_append.grown"); }
  }
  NV_CHECK(g_live == 0, "~Array: every element destroyed exactly once");
}

// append(const T&) / resize(n, const T&) whose argument is an element of the array itself
void h_b_append_element()
{
  NV_ARRAY_INPUTS(); NV_INPUT(usize, j);
  NV_ASSUME(n >= 1 && n <= 3 && j < n);
  g_live = 0;
  {
    A a;
    fill(a, n, vals);
#ifdef NV_RESIZE
    a.resize(n + 1, a._begin.item[j]);
    NV_CHECK(a.size() == n + 1 && a._begin.item[n].v == vals[j] && a._begin.item[j].v == vals[j] && g_live == (long)n + 1,
             "Array::resize(n, a[j]): behaves as if the argument had been copied first");
#else
    a.append(a._begin.item[j]);
    NV_CHECK(a.size() == n + 1 && a._begin.item[n].v == vals[j] && a._begin.item[j].v == vals[j] && g_live == (long)n + 1,
             "Array::append(a[j]): behaves as if the argument had been copied first");
#endif
    if(n == 3) { NV_REACH("b_append_element.grows"); }
    if(n == 2) { NV_REACH("b_append_element.fits"); }
  }
  NV_CHECK(g_live == 0, "~Array: every element destroyed exactly once");
}

// copy construction / assignment (incl. to itself): deep, independent, lifetimes balanced
void h_b_assign()
{
  NV_ARRAY_INPUTS(); NV_INPUT_ARR(long, wals, 1); NV_INPUT(bool, self);
  const usize m = 1;
#ifdef NV_ALIAS
  NV_ASSUME(self == (NV_ALIAS != 0));
#endif
  g_live = 0;
  {
    A a, c;
    fill(a, n, vals);
    if(m == 1) { T t(wals[0]); c.append(t); }
#if defined(NV_ALIAS) && NV_ALIAS
    a = *&a;
    NV_CHECK(equals_model(a, n, vals) && g_live == (long)(n + m), "Array a = a keeps the contents");
    if(n == 2) { NV_REACH("b_assign.self"); }
#else
    c = a;
    NV_CHECK(equals_model(c, n, vals) && equals_model(a, n, vals) && g_live == (long)(2 * n), "operator=: contents of the source, old elements destroyed, source unchanged");
    if(n > 0) { c._begin.item[0].v = vals[0] + 1; NV_CHECK(a._begin.item[0].v == vals[0], "operator=: deep (modifying the copy leaves the source)"); }
    A d(a);
    NV_CHECK(equals_model(d, n, vals) && equals_model(a, n, vals) && g_live == (long)(3 * n), "Array(const Array&): equal contents, source unchanged");
    if(n == 4 && m == 1) { NV_REACH("b_assign.other"); }
#endif
  }
  NV_CHECK(g_live == 0, "~Array: every element destroyed exactly once");
}

// remove(index) / remove(iterator) / removeFront / removeBack / clear: shifting removal == reference sequence
void h_b_remove()
{
  NV_ARRAY_INPUTS(); NV_INPUT(usize, idx);
#ifndef NV_HOW
#define NV_HOW 0 /* 0 remove(index), 1 remove(iterator), 2 removeFront(), 3 removeBack() */
#endif
  const usize how = NV_HOW;
  NV_ASSUME(n >= 1 && n <= 4 && idx < n);
  g_live = 0;
  {
    A a;
    fill(a, n, vals);
    long model[NV_AK]; usize w = 0;
    usize victim = how == 2 ? 0 : how == 3 ? n - 1 : idx;
    for(usize i = 0; i < NV_AK; i++) if(i < n && i != victim) model[w++] = vals[i];
    T* ret = 0;
    if(how == 0) a.remove(idx);
    else if(how == 1) { Array<T>::Iterator it(a._begin.item + idx); ret = a.remove(it).item; }
    else if(how == 2) ret = a.removeFront().item;
    else ret = a.removeBack().item;
    NV_CHECK(equals_model(a, n - 1, model), "Array::remove: the reference sequence without the removed element");
    NV_CHECK(how == 0 || ret == a._begin.item + victim, "Array::remove(iterator): designates the successor of the removed element");
    NV_CHECK(g_live == (long)n - 1, "Array::remove: exactly one element destroyed");
    if(n == 4 && (how >= 2 || idx == 1)) { NV_REACH("b_remove.middle"); }
    a.clear();
    NV_CHECK(a.size() == 0 && a.isEmpty() && g_live == 0, "Array::clear: every element destroyed exactly once");
  }
  NV_CHECK(g_live == 0, "~Array after clear: nothing destroyed twice");
}

// resize down / up with a foreign value, reserve, swap, find
void h_b_resize()
{
  NV_ARRAY_INPUTS(); NV_INPUT(long, fillv); NV_INPUT(long, probe);
#ifndef NV_TO
#define NV_TO 4
#endif
  const usize to = NV_TO;
  NV_ASSUME(n <= 3 && to <= 4);
  g_live = 0;
  {
    A a, b;
    fill(a, n, vals);
    T f(fillv);
    a.resize(to, f);
    bool ok = a.size() == to;
    for(usize i = 0; i < NV_AK; i++) if(i < to) ok = ok && a._begin.item[i].v == (i < n ? vals[i] : fillv);
    NV_CHECK(ok && g_live == (long)to + 1, "Array::resize: prefix kept, new elements copies of the value, surplus destroyed once");
    T p(probe);
    Array<T>::Iterator it = a.find(p);
    bool found = false; usize first = 0;
    for(usize i = NV_AK; i-- > 0;) if(i < to && a._begin.item[i].v == probe) { found = true; first = i; }
    NV_CHECK(found ? it.item == a._begin.item + first : it.item == a._end.item, "Array::find: first equal element or end()");
    T* ab = a._begin.item;
    a.swap(b);
    NV_CHECK(b._begin.item == ab && b.size() == to && a.size() == 0 && g_live == (long)to + 2, "Array::swap: storage handed over, no element touched");
    if(to < n) { NV_REACH("b_resize.shrink"); }
    if(to > n && n == 3) { NV_REACH("b_resize.grow_realloc"); }
  }
  NV_CHECK(g_live == 0, "~Array: every element destroyed exactly once");
}
} // extern "C"
