// C02 -- HashMap<K,V>: step contracts for insert / remove / find on symbolic neighbourhoods
// (order list arbitrary; bucket chain of the affected bucket at most 2 nodes long) and a bounded
// whole-table history check against an insertion-ordered reference map.
#define private public
#include <nstd/HashMap.hpp>
#include <nstd/HashSet.hpp>
#include <nstd/PoolMap.hpp>
#undef private
#include "nvh.h"

// the same harness serves HashSet<K> (-DNV_HASHSET): identical scheme without the value field
#if defined(NV_POOLMAP)
// PoolMap<K,V>: same scheme; the value is constructed in place (value-initialised) by insert and an
// existing entry is left untouched
typedef PoolMap<unsigned long, long> HM; // key and value types must differ: PoolMap declares remove(const T&) and remove(const V&)
typedef PoolMap<unsigned long, long>::Item Item;
typedef PoolMap<unsigned long, long>::Iterator HIter;
#define NV_VALUE_IS(i, v) true
#define NV_NEW_VALUE_OK(i) true /* (goto-cc leaves value() of a built-in type unspecified; not claimed) */
#define NV_DO_INSERT(m, pos, key, value) (m)->insert(pos, *(key))
#elif defined(NV_HASHSET)
typedef HashSet<long> HM;
typedef HashSet<long>::Item Item;
typedef HashSet<long>::Iterator HIter;
#define NV_VALUE_IS(i, v) true
#define NV_NEW_VALUE_OK(i) true
#define NV_DO_INSERT(m, pos, key, value) (m)->insert(pos, *(key))
#else
typedef HashMap<long, long> HM;
typedef HashMap<long, long>::Item Item;
typedef HashMap<long, long>::Iterator HIter;
#define NV_VALUE_IS(i, v) ((i)->value == (v))
#define NV_NEW_VALUE_OK(i) true
#define NV_DO_INSERT(m, pos, key, value) (m)->insert(pos, *(key), *(value))
#endif

#ifndef NV_CAP
#define NV_CAP 1 /* table capacity of the unit: 1 = every key collides */
#endif

extern "C" {
usize g_woff, g_woff2, g_cmp_wit, g_cmp_k;
// ---------------------------------------------------------------- one-call wrappers
void* w_HashMap_insert(void* m, void* posItem, const long* key, const long* value)
{
  HIter pos((Item*)posItem);
  return NV_DO_INSERT((HM*)m, pos, key, value).item;
}
void* w_HashMap_remove(void* m, void* item)
{
  HIter it((Item*)item);
  return ((HM*)m)->remove(it).item;
}
void* w_HashMap_removeFront(void* m) { return ((HM*)m)->removeFront().item; } // passes the table's own _begin iterator
void* w_HashMap_removeBack(void* m) { return ((HM*)m)->removeBack().item; }
#if defined(NV_POOLMAP)
void w_HashMap_removeKey(void* m, const long* key) { const unsigned long k = (unsigned long)*key; ((HM*)m)->remove(k); } // remove(const T&), not remove(const V&)
#else
void w_HashMap_removeKey(void* m, const long* key) { ((HM*)m)->remove(*key); }
#endif
#if defined(NV_POOLMAP)
void w_PoolMap_removeValue(void* m, void* item) { ((HM*)m)->remove(((Item*)item)->value); } // node computed from the element address
#endif
void w_HashMap_clear(void* m) { ((HM*)m)->clear(); }
void w_HashMap_swap(void* a, void* b) { ((HM*)a)->swap(*(HM*)b); }
void* w_HashMap_find(const void* m, const long* key) { return ((const HM*)m)->find(*key).item; }

// ---------------------------------------------------------------- ghost snapshot
HM* g_M; Item* g_P; Item* g_Q; Item* g_F; Item* g_F2; Item* g_I; Item* g_N; Item* g_F0; Item* g_NC;
Item** g_C; Item* g_c1; Item* g_c2; Item* g_hit; Item* g_begin0; Item** g_data0; void* g_blocks0;
usize g_size0; long g_key, g_val; bool g_hasPrev, g_freeAvail, g_present;
void* gv_Q; void* gv_N; void* gv_NC; void* gv_C; void* gv_c1; void* gv_data; void* gv_hit; // untyped copies for contracts/hashmap.c

#define bucket(key) ((usize)(key) % NV_CAP) /* macro: predicates must not share helpers with instrumented code (P22) */

// insert(position, key, value), key absent: new item heads its bucket chain and sits before position
// in the order list; key present: value replaced in place, nothing else changes
bool hm_insert_post(void* ret)
{
  Item* r = (Item*)ret;
  HM* m = g_M;
  if(m->_end.item != &m->endItem || m->capacity != NV_CAP || m->data != g_data0) return false;
  if(g_present)
    return r == g_hit && NV_VALUE_IS(r, g_val) && r->key == g_key && m->_size == g_size0 && m->freeItem == (g_freeAvail ? g_F : (Item*)0) &&
           g_P->prev == g_Q && m->data[bucket(g_key)] == g_c1 && m->_begin.item == g_begin0;
  if(g_freeAvail && r != g_F) return false;
  if(r->key != g_key || !NV_VALUE_IS(r, g_val) || !NV_NEW_VALUE_OK(r)) return false;
  if(r->cell != &m->data[bucket(g_key)] || m->data[bucket(g_key)] != r || r->nextCell != g_c1) return false; // bucket chain
  if(g_c1 && g_c1->cell != &r->nextCell) return false;                                                        // back pointer fixed up
  if(r->prev != g_Q || r->next != g_P || g_P->prev != r) return false;                                       // order list
  if(g_hasPrev ? (g_Q->next != r || m->_begin.item != g_begin0) : m->_begin.item != r) return false;
  if(m->_size != g_size0 + 1) return false;
  return g_freeAvail ? (m->freeItem == g_F2 && (void*)m->blocks == g_blocks0) : (m->freeItem != 0 && (void*)m->blocks != g_blocks0);
}

// remove(it): unlinked from bucket chain (back pointer of the chain successor fixed up) and from the
// order list; successor returned; item recycled
bool hm_remove_post(void* ret)
{
  HM* m = g_M;
  if(ret != (void*)g_N) return false;
  if(*g_C != g_NC || (g_NC && g_NC->cell != g_C)) return false;
  if(g_hasPrev ? (g_Q->next != g_N || m->_begin.item != g_begin0) : m->_begin.item != g_N) return false;
  if(g_N->prev != g_Q) return false;
  return m->_size == g_size0 - 1 && m->freeItem == g_I && g_I->prev == g_F0 && m->_end.item == &m->endItem && m->data == g_data0;
}

bool hm_find_post(void* ret)
{
  return g_present ? ret == (void*)g_hit : ret == (void*)&g_M->endItem;
}

void h_layout()
{
  HM* z = 0; Item* i = 0;
#if defined(NV_POOLMAP)
  NV_CHECK((usize)&i->value == 0 && (usize)&i->key == 8 && (usize)&i->cell == 16 && (usize)&i->nextCell == 24 &&
           (usize)&i->prev == 32 && (usize)&i->next == 40 && sizeof(Item) == 48, "layout PoolMap::Item == struct HItem_L");
  NV_CHECK((usize)&z->_end == 0 && (usize)&z->_begin == 8 && (usize)&z->_size == 16 && (usize)&z->capacity == 24 &&
           (usize)&z->data == 32 && (usize)&z->endItem == 40 && (usize)&z->freeItem == 88 && (usize)&z->blocks == 96,
           "layout PoolMap == struct HMap_L");
#elif defined(NV_HASHSET)
  NV_CHECK((usize)&i->key == 0 && (usize)&i->cell == 8 && (usize)&i->nextCell == 16 &&
           (usize)&i->prev == 24 && (usize)&i->next == 32 && sizeof(Item) == 40, "layout HashSet::Item == struct HItem_L");
  NV_CHECK((usize)&z->_end == 0 && (usize)&z->_begin == 8 && (usize)&z->_size == 16 && (usize)&z->capacity == 24 &&
           (usize)&z->data == 32 && (usize)&z->endItem == 40 && (usize)&z->freeItem == 80 && (usize)&z->blocks == 88,
           "layout HashSet == struct HMap_L");
#else
  NV_CHECK((usize)&i->key == 0 && (usize)&i->value == 8 && (usize)&i->cell == 16 && (usize)&i->nextCell == 24 &&
           (usize)&i->prev == 32 && (usize)&i->next == 40 && sizeof(Item) == 48, "layout HashMap::Item == struct HItem_L");
  NV_CHECK((usize)&z->_end == 0 && (usize)&z->_begin == 8 && (usize)&z->_size == 16 && (usize)&z->capacity == 24 &&
           (usize)&z->data == 32 && (usize)&z->endItem == 40 && (usize)&z->freeItem == 88 && (usize)&z->blocks == 96,
           "layout HashMap == struct HMap_L");
#endif
}

static Item* raw_item() { return (Item*)new char[sizeof(Item)]; }
static HM* raw_map()
{
  HM* m = (HM*)new char[sizeof(HM)];
  m->_end.item = &m->endItem; m->endItem.next = 0; m->capacity = NV_CAP;
  m->data = (Item**)new char[sizeof(Item*) * NV_CAP];
  m->blocks = 0;
  return m;
}

// bucket chain of the key's bucket: 0, 1 or 2 nodes; `which` says which of them carries the key
static void build_chain(HM* m, long key, usize chainLen, usize which, long k1, long k2)
{
  Item** cell = &m->data[bucket(key)];
  g_c1 = g_c2 = g_hit = 0;
  if(chainLen >= 1) { g_c1 = raw_item(); *(long*)&g_c1->key = which == 1 ? key : k1; g_c1->cell = cell; g_c1->nextCell = 0; }
  if(chainLen >= 2) { g_c2 = raw_item(); *(long*)&g_c2->key = which == 2 ? key : k2; g_c2->cell = &g_c1->nextCell; g_c2->nextCell = 0; g_c1->nextCell = g_c2; }
  *cell = g_c1;
  g_hit = which == 1 ? g_c1 : which == 2 ? g_c2 : (Item*)0;
  g_present = g_hit != 0;
}

#define NV_CHAIN_INPUTS() \
  NV_INPUT(long, key); NV_INPUT(usize, chainLen); NV_INPUT(usize, which); NV_INPUT(long, k1); NV_INPUT(long, k2); \
  NV_ASSUME(chainLen <= 2 && which <= chainLen && (which == 1 || chainLen < 1 || k1 != key) && (which == 2 || chainLen < 2 || k2 != key)); \
  NV_ASSUME(chainLen < 1 || which == 1 || bucket(k1) == bucket(key)); NV_ASSUME(chainLen < 2 || which == 2 || bucket(k2) == bucket(key))

// -------------------------------------------------------------- insert(position, key, value)
void h_insert()
{
  NV_CHAIN_INPUTS();
  NV_INPUT(bool, atEnd); NV_INPUT(bool, hasPrev); NV_INPUT(bool, freeAvail); NV_INPUT(bool, moreFree);
  NV_INPUT(usize, size0); NV_INPUT(long, val);
  NV_ASSUME(size0 <= NV_MAXSZ);
  HM* m = raw_map();
  build_chain(m, key, chainLen, which, k1, k2);
  Item* P = atEnd ? &m->endItem : raw_item();
  Item* Q = hasPrev ? raw_item() : (Item*)0;
  Item* F = raw_item(); Item* F2 = moreFree ? raw_item() : (Item*)0;
  Item* other = raw_item();
  P->prev = Q;
  if(hasPrev) { Q->next = P; m->_begin.item = other; } else m->_begin.item = P;
  F->prev = F2;
  m->freeItem = freeAvail ? F : (Item*)0;
  m->_size = size0;
  g_M = m; g_P = P; g_Q = Q; g_F = F; g_F2 = F2; g_size0 = size0; g_key = key; g_val = val; g_hasPrev = hasPrev;
  g_freeAvail = freeAvail; g_begin0 = m->_begin.item; g_data0 = m->data; g_blocks0 = m->blocks;
  gv_Q = Q; gv_c1 = g_c1; gv_data = m->data; gv_hit = g_hit;
  void* r = w_HashMap_insert(m, P, &key, &val);
  NV_POST("HashMap::insert: new key heads its bucket and sits before position; existing key updated in place", hm_insert_post(r));
  if(!g_present && chainLen == 2) { NV_REACH("insert.collide"); }
  if(!g_present && !freeAvail) { NV_REACH("insert.new_block"); }
  if(g_present && which == 2) { NV_REACH("insert.existing"); }
}

// -------------------------------------------------------------- remove(iterator)
#ifndef NV_RM_MODE
#define NV_RM_MODE 0 /* 0 remove(iterator), 1 removeFront(), 2 removeBack(), 3 PoolMap::remove(const V&) */
#endif
void h_remove()
{
  NV_INPUT(bool, nextIsEnd); NV_INPUT(bool, hasPrev); NV_INPUT(bool, hasFree); NV_INPUT(bool, inChain); NV_INPUT(bool, hasNextCell);
  NV_INPUT(usize, size0);
  NV_ASSUME(size0 >= 1 && size0 <= NV_MAXSZ);
#if NV_RM_MODE == 1
  NV_ASSUME(!hasPrev);
#elif NV_RM_MODE == 2
  NV_ASSUME(nextIsEnd);
#endif
  HM* m = raw_map();
  Item* I = raw_item();
  Item* N = nextIsEnd ? &m->endItem : raw_item();
  Item* Q = hasPrev ? raw_item() : (Item*)0;
  Item* F0 = hasFree ? raw_item() : (Item*)0;
  Item* other = raw_item();
  Item* pred = raw_item(); // chain predecessor when the item is not the bucket head
  Item* NC = hasNextCell ? raw_item() : (Item*)0;
  Item** C = inChain ? &pred->nextCell : &m->data[0];
  *C = I; I->cell = C; I->nextCell = NC; if(NC) NC->cell = &I->nextCell;
  I->prev = Q; I->next = N; N->prev = I;
  if(hasPrev) { Q->next = I; m->_begin.item = other; } else m->_begin.item = I;
  m->freeItem = F0; m->_size = size0;
  g_M = m; g_I = I; g_N = N; g_Q = Q; g_F0 = F0; g_NC = NC; g_C = C; g_size0 = size0; g_hasPrev = hasPrev;
  g_begin0 = m->_begin.item; g_data0 = m->data;
  gv_Q = Q; gv_N = N; gv_NC = NC; gv_C = C;
#if NV_RM_MODE == 1
  void* r = w_HashMap_removeFront(m);
#elif NV_RM_MODE == 2
  void* r = w_HashMap_removeBack(m);
#elif NV_RM_MODE == 3
  w_PoolMap_removeValue(m, I); void* r = N; // returns nothing
#else
  void* r = w_HashMap_remove(m, I);
#endif
  NV_POST("HashMap::remove: unlinked from bucket chain and order list, successor returned", hm_remove_post(r));
  if(inChain && hasNextCell) { NV_REACH("remove.mid_chain"); }
  if(!inChain && !hasNextCell) { NV_REACH("remove.only_in_bucket"); }
}

// -------------------------------------------------------------- remove(key): find + remove; absent key changes nothing
bool hm_removekey_post()
{
  HM* m = g_M;
  if(!g_present)
    return m->_size == g_size0 && m->freeItem == g_F0 && m->_begin.item == g_begin0 && m->data == g_data0 &&
           m->data[bucket(g_key)] == g_c1 && m->_end.item == &m->endItem;
  if(*g_C != g_NC || (g_NC && g_NC->cell != g_C)) return false;
  if(g_hasPrev ? (g_Q->next != g_N || m->_begin.item != g_begin0) : m->_begin.item != g_N) return false;
  if(g_N->prev != g_Q) return false;
  return m->_size == g_size0 - 1 && m->freeItem == g_I && g_I->prev == g_F0 && m->_end.item == &m->endItem && m->data == g_data0;
}
void h_remove_key()
{
  NV_CHAIN_INPUTS();
  NV_INPUT(bool, nextIsEnd); NV_INPUT(bool, hasPrev); NV_INPUT(bool, hasFree); NV_INPUT(usize, size0);
  NV_ASSUME(size0 >= 1 && size0 <= NV_MAXSZ);
  HM* m = raw_map();
  build_chain(m, key, chainLen, which, k1, k2);
  Item* N = nextIsEnd ? &m->endItem : raw_item();
  Item* Q = hasPrev ? raw_item() : (Item*)0;
  Item* F0 = hasFree ? raw_item() : (Item*)0;
  Item* other = raw_item();
  Item* I = g_hit;
  m->_begin.item = other;
  if(I)
  {
    I->prev = Q; I->next = N; N->prev = I;
    if(hasPrev) Q->next = I; else m->_begin.item = I;
  }
  m->freeItem = F0; m->_size = size0;
  g_M = m; g_I = I; g_N = N; g_Q = I ? Q : (Item*)0; g_F0 = F0; g_NC = I ? I->nextCell : (Item*)0; g_C = I ? I->cell : (Item**)0; g_size0 = size0;
  g_hasPrev = hasPrev; g_key = key; g_begin0 = m->_begin.item; g_data0 = m->data;
  gv_Q = g_Q; gv_N = N; gv_NC = g_NC; gv_C = g_C; gv_hit = g_hit; gv_data = m->data;
  w_HashMap_removeKey(m, &key);
  NV_POST("remove(key): the entry carrying the key is unlinked and recycled; an absent key changes nothing", hm_removekey_post());
  if(g_present && which == 2) { NV_REACH("remove_key.second_in_chain"); }
  if(!g_present && chainLen == 2) { NV_REACH("remove_key.absent"); }
}

// -------------------------------------------------------------- find(key)
void h_find()
{
  NV_CHAIN_INPUTS();
  HM* m = raw_map();
  build_chain(m, key, chainLen, which, k1, k2);
  g_M = m;
  void* r = w_HashMap_find(m, &key);
  NV_POST("HashMap::find: the item carrying the key, end() otherwise", hm_find_post(r));
  if(g_present) { NV_REACH("find.hit"); }
  if(!g_present && chainLen == 2) { NV_REACH("find.miss_after_collisions"); }
}

// -------------------------------------------------------------- swap(other)
// each table: empty or with a symbolic first/last item, symbolic size, capacity, bucket array, free
// list and blocks.  After swap every field has changed owner, the last item points at the new
// owner's sentinel, and nothing else was written (frame): no item is relocated or copied.
HM* g_Ma; HM* g_Mb; Item* g_a_first; Item* g_a_last; Item* g_b_first; Item* g_b_last;
usize g_a_size, g_b_size, g_a_cap, g_b_cap; Item** g_a_data; Item** g_b_data; Item* g_a_free; Item* g_b_free; void* g_a_blocks; void* g_b_blocks;
void* gv_a_last; void* gv_b_last;
#define NV_SWAPPED_OK(x, first, last, size, cap, dat, fr, blk) \
  ((x)->_size == (size) && (x)->capacity == (cap) && (x)->data == (dat) && (x)->freeItem == (fr) && (void*)(x)->blocks == (blk) && \
   (x)->_end.item == &(x)->endItem && (x)->endItem.prev == (last) && \
   ((last) ? ((last)->next == &(x)->endItem && (x)->_begin.item == (first)) : (x)->_begin.item == &(x)->endItem))
bool hm_swap_post()
{
  return NV_SWAPPED_OK(g_Ma, g_b_first, g_b_last, g_b_size, g_b_cap, g_b_data, g_b_free, g_b_blocks) &&
         NV_SWAPPED_OK(g_Mb, g_a_first, g_a_last, g_a_size, g_a_cap, g_a_data, g_a_free, g_a_blocks);
}
#define NV_HALF(m, empty, single, size, cap, first, last, dat, fr, blk) \
  first = last = 0; \
  if(!(empty)) { last = raw_item(); first = (single) ? last : raw_item(); last->next = &(m)->endItem; } \
  (m)->endItem.prev = last; (m)->_begin.item = (empty) ? &(m)->endItem : first; (m)->_size = (size); (m)->capacity = (cap); \
  dat = (m)->data; fr = raw_item(); (m)->freeItem = fr; blk = (void*)new char[8]; *(void**)&(m)->blocks = blk
void h_swap()
{
  NV_INPUT(bool, aEmpty); NV_INPUT(bool, aSingle); NV_INPUT(bool, bEmpty); NV_INPUT(bool, bSingle);
  NV_INPUT(usize, aSize); NV_INPUT(usize, bSize); NV_INPUT(usize, aCap); NV_INPUT(usize, bCap);
  HM* a = raw_map(); HM* b = raw_map();
  NV_HALF(a, aEmpty, aSingle, aSize, aCap, g_a_first, g_a_last, g_a_data, g_a_free, g_a_blocks);
  NV_HALF(b, bEmpty, bSingle, bSize, bCap, g_b_first, g_b_last, g_b_data, g_b_free, g_b_blocks);
  g_Ma = a; g_Mb = b; g_a_size = aSize; g_b_size = bSize; g_a_cap = aCap; g_b_cap = bCap; gv_a_last = g_a_last; gv_b_last = g_b_last;
  w_HashMap_swap(a, b);
  NV_POST("swap: tables, order lists and pools handed over, sentinels re-anchored, no item written", hm_swap_post());
  if(aEmpty && !bEmpty) { NV_REACH("swap.empty_with_full"); }
  if(!aEmpty && !bEmpty && !aSingle) { NV_REACH("swap.full_with_full"); }
}

#if !defined(NV_HASHSET) && !defined(NV_POOLMAP)
// ================================================================ bounded history check
// up to 3 appends (symbolic keys, capacity NV_CAP) then one removal by key; compared with an
// insertion-ordered reference map kept in arrays
void h_b_history()
{
  NV_INPUT_ARR(long, keys, 3); NV_INPUT_ARR(long, vals, 3); NV_INPUT(usize, n); NV_INPUT(long, rk);
  NV_ASSUME(n <= 3);
  HM m(NV_CAP);
  long mk[3], mv[3]; usize mn = 0;
  for(usize i = 0; i < 3; i++) if(i < n)
  {
    m.append(keys[i], vals[i]);
    bool found = false;
    for(usize j = 0; j < 3; j++) if(j < mn && mk[j] == keys[i]) { mv[j] = vals[i]; found = true; }
    if(!found) { mk[mn] = keys[i]; mv[mn] = vals[i]; mn++; }
  }
  m.remove(rk);
  { usize w = 0; for(usize j = 0; j < 3; j++) if(j < mn && mk[j] != rk) { mk[w] = mk[j]; mv[w] = mv[j]; w++; } mn = w; }
  bool ok = m.size() == mn && m.isEmpty() == (mn == 0);
  const Item* it = m._begin.item;
  for(usize j = 0; j < 3; j++) if(j < mn)
  {
    ok = ok && it != &m.endItem && it->key == mk[j] && it->value == mv[j] && m.find(mk[j]).item == it;
    it = it->next;
  }
  ok = ok && it == &m.endItem && !m.contains(rk);
  NV_CHECK(ok, "HashMap history: insertion order, unique keys (value updated in place), lookups, removal == reference map");
  NV_REACH("b_history.return");
}

#endif


// -------------------------------------------------------------- bounded: clear() on an order list of <= 2 items
// (in one bucket chain or in two buckets): every bucket head reset through the items' cell back
// pointers, order list empty, size 0, items pushed on the free list, nothing else written
Item* g_i1; Item* g_i2; void* gv_i1; void* gv_i2;
bool hm_clear_post()
{
  HM* m = g_M;
  if(m->_size != 0 || m->_begin.item != &m->endItem || m->endItem.prev != 0 || m->_end.item != &m->endItem || m->data != g_data0 || m->capacity != NV_CAP) return false;
  if(g_i1 && *g_i1->cell != 0) return false;
  if(g_i2 && *g_i2->cell != 0) return false;
  if(g_i1 && m->data[bucket(g_i1->key)] != 0) return false;
  if(g_i2 && m->data[bucket(g_i2->key)] != 0) return false;
  if(!g_i1) return m->freeItem == g_F0;
  if(g_i1->prev != g_F0) return false;
  if(!g_i2) return m->freeItem == g_i1;
  return g_i2->prev == g_i1 && m->freeItem == g_i2;
}
void h_b_clear()
{
  NV_INPUT(usize, n); NV_INPUT(bool, sameChain); NV_INPUT(bool, hasFree); NV_INPUT(long, k1); NV_INPUT(long, k2); NV_INPUT(usize, size0);
  NV_ASSUME(n <= 2 && k1 != k2 && (n < 2 || sameChain == (bucket(k1) == bucket(k2))));
  HM* m = raw_map();
  for(usize b = 0; b < NV_CAP; b++) m->data[b] = 0;
  Item* F0 = hasFree ? raw_item() : (Item*)0;
  Item* i1 = n >= 1 ? raw_item() : (Item*)0;
  Item* i2 = n >= 2 ? raw_item() : (Item*)0;
  m->endItem.prev = 0; m->_begin.item = &m->endItem;
  if(i1) { *(long*)&i1->key = k1; i1->prev = 0; i1->next = &m->endItem; m->endItem.prev = i1; m->_begin.item = i1; i1->cell = &m->data[bucket(k1)]; i1->nextCell = 0; *i1->cell = i1; }
  if(i2)
  { // appended after i1: heads its bucket chain (in front of i1 when they collide)
    *(long*)&i2->key = k2; i2->prev = i1; i1->next = i2; i2->next = &m->endItem; m->endItem.prev = i2;
    i2->cell = &m->data[bucket(k2)]; i2->nextCell = *i2->cell; if(i2->nextCell) i2->nextCell->cell = &i2->nextCell; *i2->cell = i2;
  }
  m->freeItem = F0; m->_size = size0;
  g_M = m; g_i1 = i1; g_i2 = i2; g_F0 = F0; g_data0 = m->data; gv_i1 = i1; gv_i2 = i2; gv_data = m->data;
  w_HashMap_clear(m);
  NV_POST("clear: empty order list, bucket heads reset through the back pointers, items recycled in order", hm_clear_post());
  if(n == 2 && sameChain) { NV_REACH("b_clear.two_colliding"); }
  if(n == 0) { NV_REACH("b_clear.empty"); }
}

// -------------------------------------------------------------- bounded: copy / assignment incl. self (<= 1 entry)
#ifndef NV_POOLMAP
void h_b_assign()
{
  NV_INPUT(long, k1v); NV_INPUT(long, v1v); NV_INPUT(long, k2v); NV_INPUT(long, v2v); NV_INPUT(bool, self); NV_INPUT(bool, srcEmpty); NV_INPUT(bool, dstEmpty);
#ifdef NV_ALIAS
  NV_ASSUME(self == (NV_ALIAS != 0));
#endif
  HM a(NV_CAP), c(NV_CAP);
  HIter e;
#ifdef NV_HASHSET
  if(!srcEmpty) a.append(k1v);
  if(!dstEmpty) c.append(k2v);
#else
  if(!srcEmpty) a.append(k1v, v1v);
  if(!dstEmpty) c.append(k2v, v2v);
#endif
#if defined(NV_ALIAS) && NV_ALIAS
  HM* src = &c;
#else
  HM* src = &a;
#endif
  c = *src;
  bool wantEmpty = self ? dstEmpty : srcEmpty;
  long wk = self ? k2v : k1v, wv = self ? v2v : v1v;
  bool ok = c.size() == (wantEmpty ? 0u : 1u) && c.isEmpty() == wantEmpty;
  if(!wantEmpty) ok = ok && c._begin.item != &c.endItem && c._begin.item->key == wk && NV_VALUE_IS(c._begin.item, wv) && c._begin.item->next == &c.endItem && c.contains(wk);
  NV_CHECK(ok, "operator=: contents of the source (assignment to itself keeps the contents)");
  if(self && !dstEmpty) { NV_REACH("b_assign.self"); }
  if(!self && !srcEmpty && !dstEmpty) { NV_REACH("b_assign.other"); }
}
#endif

} // extern "C"
