// C03 / C05 -- PoolList<T>: step contracts on symbolic neighbourhoods (whatever the rest of the list
// looks like).  The element lives BEHIND its node header (`(T*)(item + 1)`); it is constructed in
// place by append and never copied or moved; remove(const T&) computes the node from the element
// address.  Element type Tp counts constructions / destructions in ghost state and is not copyable.
#define private public
#include <nstd/PoolList.hpp>
#undef private
#include "nvh.h"

extern "C" {
int g_ctor, g_dtor;          // ghost: element constructions / destructions since the last reset
const void* g_last_ctor;     // address of the element constructed / destroyed last
const void* g_last_dtor;
}

// The element class is NAMED `T`: goto-cc resolves the pseudo-destructor call `((T*)(item + 1))->~T()`
// by name ("symbol '~T' is unknown" for any other class name); inside PoolList<T> both are the same type.
#define Tp T
struct Tp
{
  long v;
  Tp() : v(0) { ++g_ctor; g_last_ctor = this; }
  Tp(long a) : v(a) { ++g_ctor; g_last_ctor = this; }
  ~Tp() { ++g_dtor; g_last_dtor = this; }
private:
  Tp(const Tp&);
  Tp& operator=(const Tp&);
};
typedef PoolList<Tp> PL;
typedef PoolList<Tp>::Item Item;
#define NODE (sizeof(Item) + sizeof(Tp))
#define ELEM(i) ((Tp*)((Item*)(i) + 1))

extern "C" {
// ---------------------------------------------------------------- one-call wrappers (PoolList<Tp> has no C spelling)
// append(): the argument-taking overloads are member templates that goto-cc cannot instantiate
// ("template parameter without instance: T" on `new (p) T(a)`); same body with `T` for `T(a)`
void* w_PL_append(void* l, const long* value) { return &((PL*)l)->append(); }
void* w_PL_remove(void* l, void* item)
{
  PoolList<Tp>::Iterator it((Item*)item);
  return ((PL*)l)->remove(it).item;
}
void w_PL_removeValue(void* l, void* elem) { ((PL*)l)->remove(*(const Tp*)elem); } // node computed from the element address
void* w_PL_removeFront(void* l) { return ((PL*)l)->removeFront().item; } // passes the list's own _begin iterator
void* w_PL_removeBack(void* l) { return ((PL*)l)->removeBack().item; }
void w_PL_swap(void* a, void* b) { ((PL*)a)->swap(*(PL*)b); }
void w_PL_clear(void* l) { ((PL*)l)->clear(); }

// ---------------------------------------------------------------- ghost snapshot of the neighbourhood
PL* g_L; Item* g_Q; Item* g_F; Item* g_F2; Item* g_I; Item* g_N; Item* g_F0;
usize g_size0; long g_val; bool g_hasPrev, g_freeAvail;
void* g_blocks0; Item* g_begin0;
void* gv_Q; void* gv_N; void* gv_I; void* gv_a_last; void* gv_b_last;

// append(value): the element is constructed exactly once, in place behind the node that headed the
// free list (or in a node of a new block), linked before the sentinel; nothing else is written
bool pl_append_post(void* ret)
{
  PL* l = g_L;
  if(g_ctor != 1 || g_dtor != 0 || g_last_ctor != ret) return false;
  Item* item = (Item*)ret - 1;
  if(g_freeAvail && item != g_F) return false;
  if(((Tp*)ret)->v != 0) return false; // default-constructed
  if(item->prev != g_Q || item->next != &l->endItem || l->endItem.prev != item) return false;
  if(g_hasPrev ? (g_Q->next != item || l->_begin.item != g_begin0) : l->_begin.item != item) return false;
  if(l->_size != g_size0 + 1 || l->_end.item != &l->endItem || l->endItem.next != 0) return false;
  return g_freeAvail ? (l->freeItem == g_F2 && (void*)l->blocks == g_blocks0)
                     : (l->freeItem != 0 && (void*)l->blocks != g_blocks0 && l->blocks != 0);
}

// remove: neighbours linked to each other, the element destroyed exactly once where it lives, the
// node heads the free list, the successor is returned
bool pl_remove_post(void* ret)
{
  PL* l = g_L;
  if(ret != (void*)g_N) return false;
  if(g_dtor != 1 || g_ctor != 0 || g_last_dtor != (const void*)ELEM(g_I)) return false;
  if(g_hasPrev ? (g_Q->next != g_N || l->_begin.item != g_begin0) : l->_begin.item != g_N) return false;
  if(g_N->prev != g_Q) return false;
  if(l->_size != g_size0 - 1 || l->freeItem != g_I || g_I->prev != g_F0 || g_I->next != g_N) return false;
  return l->_end.item == &l->endItem && (void*)l->blocks == g_blocks0;
}

void h_layout()
{
  PL* z = 0; Item* i = 0;
  NV_CHECK((usize)&i->prev == 0 && (usize)&i->next == 8 && sizeof(Item) == 16 && sizeof(Tp) == 8 && (usize)ELEM(i) == 16,
           "layout PoolList<Tp>::Item + element == struct PItem_L");
  NV_CHECK((usize)&z->_end == 0 && (usize)&z->_begin == 8 && (usize)&z->_size == 16 && (usize)&z->endItem == 24 &&
           (usize)&z->freeItem == 40 && (usize)&z->blocks == 48, "layout PoolList<Tp> == struct PList_L");
}

static Item* raw_item() { return (Item*)new char[NODE]; }
static PL* raw_list()
{
  PL* l = (PL*)new char[sizeof(PL)];
  l->_end.item = &l->endItem; l->endItem.next = 0;
  return l;
}

// -------------------------------------------------------------- append(value)
void h_append()
{
  NV_INPUT(bool, hasPrev); NV_INPUT(bool, freeAvail); NV_INPUT(bool, moreFree);
  NV_INPUT(usize, size0); NV_INPUT(long, val);
  NV_ASSUME(size0 <= NV_MAXSZ);
  PL* l = raw_list();
  Item* Q = hasPrev ? raw_item() : (Item*)0;
  Item* F = raw_item(); Item* F2 = moreFree ? raw_item() : (Item*)0;
  Item* other = raw_item(); // stands for "some other first item" when the list is not empty
  l->endItem.prev = Q;
  if(hasPrev) { Q->next = &l->endItem; l->_begin.item = other; } else l->_begin.item = &l->endItem;
  F->prev = F2;
  l->freeItem = freeAvail ? F : (Item*)0;
  l->_size = size0;
  l->blocks = 0;
  g_L = l; g_Q = Q; g_F = F; g_F2 = F2; g_size0 = size0; g_val = val; g_hasPrev = hasPrev;
  g_freeAvail = freeAvail; g_blocks0 = l->blocks; g_begin0 = l->_begin.item; gv_Q = Q;
  g_ctor = 0; g_dtor = 0;
  void* r = w_PL_append(l, &val);
  NV_POST("PoolList::append: one in-place construction, linked before the sentinel, size + 1", pl_append_post(r));
  if(freeAvail) { NV_REACH("append.reuse"); }
  if(!freeAvail) { NV_REACH("append.new_block"); }
}

// -------------------------------------------------------------- remove(iterator) / remove(const T&) / removeFront() / removeBack()
#ifndef NV_RM_MODE
#define NV_RM_MODE 0 /* 0 remove(iterator), 1 removeFront(), 2 removeBack(), 3 remove(const T&) */
#endif
void h_remove()
{
  NV_INPUT(bool, nextIsEnd); NV_INPUT(bool, hasPrev); NV_INPUT(bool, hasFree); NV_INPUT(usize, size0);
  NV_ASSUME(size0 >= 1 && size0 <= NV_MAXSZ);
#if NV_RM_MODE == 1
  NV_ASSUME(!hasPrev);
#elif NV_RM_MODE == 2
  NV_ASSUME(nextIsEnd);
#endif
  PL* l = raw_list();
  Item* I = raw_item();
  Item* N = nextIsEnd ? &l->endItem : raw_item();
  Item* Q = hasPrev ? raw_item() : (Item*)0;
  Item* F0 = hasFree ? raw_item() : (Item*)0;
  Item* other = raw_item();
  I->prev = Q; I->next = N; N->prev = I;
  if(hasPrev) { Q->next = I; l->_begin.item = other; } else l->_begin.item = I;
  l->freeItem = F0; l->_size = size0; l->blocks = 0;
  g_L = l; g_I = I; g_N = N; g_Q = Q; g_F0 = F0; g_size0 = size0; g_hasPrev = hasPrev;
  g_blocks0 = l->blocks; g_begin0 = l->_begin.item; gv_Q = Q; gv_N = N; gv_I = I;
  g_ctor = 0; g_dtor = 0;
#if NV_RM_MODE == 1
  void* r = w_PL_removeFront(l);
#elif NV_RM_MODE == 2
  void* r = w_PL_removeBack(l);
#elif NV_RM_MODE == 3
  w_PL_removeValue(l, ELEM(I)); void* r = N; // returns nothing
#else
  void* r = w_PL_remove(l, I);
#endif
  NV_POST("PoolList::remove: neighbours relinked, one destruction in place, successor returned", pl_remove_post(r));
  if(hasPrev && !nextIsEnd) { NV_REACH("remove.middle"); }
  if(!hasPrev && nextIsEnd) { NV_REACH("remove.only"); }
  if(!hasPrev && !nextIsEnd) { NV_REACH("remove.first"); }
  if(hasPrev && nextIsEnd) { NV_REACH("remove.last"); }
}

// -------------------------------------------------------------- swap(other)
PL* g_La; PL* g_Lb; Item* g_a_first; Item* g_a_last; Item* g_b_first; Item* g_b_last;
usize g_a_size, g_b_size; Item* g_a_free; Item* g_b_free; void* g_a_blocks; void* g_b_blocks;
#define NV_SWAPPED_OK(x, first, last, size, fr, blk) \
  ((x)->_size == (size) && (x)->freeItem == (fr) && (void*)(x)->blocks == (blk) && (x)->_end.item == &(x)->endItem && (x)->endItem.prev == (last) && \
   ((last) ? ((last)->next == &(x)->endItem && (x)->_begin.item == (first)) : (x)->_begin.item == &(x)->endItem))
bool pl_swap_post()
{
  return g_ctor == 0 && g_dtor == 0 &&
         NV_SWAPPED_OK(g_La, g_b_first, g_b_last, g_b_size, g_b_free, g_b_blocks) &&
         NV_SWAPPED_OK(g_Lb, g_a_first, g_a_last, g_a_size, g_a_free, g_a_blocks);
}
#define NV_HALF(l, empty, single, size, first, last, fr, blk) \
  first = last = 0; \
  if(!(empty)) { last = raw_item(); first = (single) ? last : raw_item(); last->next = &(l)->endItem; } \
  (l)->endItem.prev = last; (l)->_begin.item = (empty) ? &(l)->endItem : first; (l)->_size = (size); \
  fr = raw_item(); (l)->freeItem = fr; blk = (void*)new char[8]; *(void**)&(l)->blocks = blk
void h_swap()
{
  NV_INPUT(bool, aEmpty); NV_INPUT(bool, aSingle); NV_INPUT(bool, bEmpty); NV_INPUT(bool, bSingle);
  NV_INPUT(usize, aSize); NV_INPUT(usize, bSize);
  PL* a = raw_list(); PL* b = raw_list();
  NV_HALF(a, aEmpty, aSingle, aSize, g_a_first, g_a_last, g_a_free, g_a_blocks);
  NV_HALF(b, bEmpty, bSingle, bSize, g_b_first, g_b_last, g_b_free, g_b_blocks);
  g_La = a; g_Lb = b; g_a_size = aSize; g_b_size = bSize; gv_a_last = g_a_last; gv_b_last = g_b_last;
  g_ctor = 0; g_dtor = 0;
  w_PL_swap(a, b);
  NV_POST("PoolList::swap: chains and pools handed over, sentinels re-anchored, no element touched", pl_swap_post());
  if(aEmpty && !bEmpty) { NV_REACH("swap.empty_with_full"); }
  if(!aEmpty && !bEmpty && !aSingle) { NV_REACH("swap.full_with_full"); }
}

// -------------------------------------------------------------- bounded: clear() on a list of <= 2 elements
// every element destroyed exactly once where it lives, nodes pushed on the free list in order,
// list empty, blocks kept, nothing else written
Item* g_i1; Item* g_i2; void* gv_i1; void* gv_i2;
bool pl_clear_post()
{
  PL* l = g_L;
  usize n = g_i2 ? 2 : g_i1 ? 1 : 0;
  if(g_ctor != 0 || g_dtor != (int)n) return false;
  if(n && g_last_dtor != (const void*)ELEM(n == 2 ? g_i2 : g_i1)) return false;
  if(l->_size != 0 || l->_begin.item != &l->endItem || l->endItem.prev != 0 || l->_end.item != &l->endItem || (void*)l->blocks != g_blocks0) return false;
  if(!g_i1) return l->freeItem == g_F0;
  if(g_i1->prev != g_F0) return false;
  if(!g_i2) return l->freeItem == g_i1;
  return g_i2->prev == g_i1 && l->freeItem == g_i2;
}
void h_b_clear()
{
  NV_INPUT(usize, n); NV_INPUT(bool, hasFree); NV_INPUT(usize, size0);
  NV_ASSUME(n <= 2);
  PL* l = raw_list();
  Item* F0 = hasFree ? raw_item() : (Item*)0;
  Item* i1 = n >= 1 ? raw_item() : (Item*)0;
  Item* i2 = n >= 2 ? raw_item() : (Item*)0;
  l->endItem.prev = 0; l->_begin.item = &l->endItem;
  if(i1) { i1->prev = 0; i1->next = &l->endItem; l->endItem.prev = i1; l->_begin.item = i1; }
  if(i2) { i2->prev = i1; i1->next = i2; i2->next = &l->endItem; l->endItem.prev = i2; }
  l->freeItem = F0; l->_size = size0; l->blocks = 0;
  g_L = l; g_i1 = i1; g_i2 = i2; g_F0 = F0; g_blocks0 = l->blocks; gv_i1 = i1; gv_i2 = i2;
  g_ctor = 0; g_dtor = 0; g_last_dtor = 0;
  w_PL_clear(l);
  NV_POST("PoolList::clear: each element destroyed once in place, nodes recycled in order, list empty", pl_clear_post());
  if(n == 2) { NV_REACH("b_clear.two"); }
  if(n == 0) { NV_REACH("b_clear.empty"); }
}

} // extern "C"
