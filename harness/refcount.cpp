// C09 -- RefCount::Ptr: every handle operation against a ghost ledger of handles per payload.
#define private public
#define protected public
#include <nstd/RefCount.hpp>
#undef private
#undef protected
#include "nvh.h"

class Node : public RefCount::Object
{
public:
  int v;
};
typedef RefCount::Ptr<Node> P;

extern "C" {
// ---------------------------------------------------------------- ghost ledger
Node* g_A;
Node* g_B;            // the two payloads
const P* g_self;
const P* g_other;     // the handles under test (g_other == 0: none)
Node* g_e_self;
Node* g_e_other;      // expected targets afterwards
usize g_e_refA, g_e_refB; // expected counts afterwards (= handles that refer to the payload)
bool g_e_freedA, g_e_freedB;

// handle invariant: the counted object and the typed object are the same payload
bool wf_Ptr(const void* q) { const P* p = (const P*)q; return p->refObj == (RefCount::Object*)p->obj; }

// extern "C" wrappers carrying the contracts (one call of the real member each)
void w_Ptr_dtor(void* self) { P* p = (P*)self; p->~Ptr(); }
void* w_Ptr_assign(void* self, const void* other) { return &(*(P*)self = *(const P*)other); }
void* w_Ptr_assign_raw(void* self, Node* obj) { return &(*(P*)self = obj); }
void w_Ptr_swap(void* self, void* other) { ((P*)self)->swap(*(P*)other); }

bool ptr_post()
{
  if(g_self && (g_self->obj != g_e_self || g_self->refObj != (RefCount::Object*)g_self->obj)) return false;
  if(g_other && (g_other->obj != g_e_other || g_other->refObj != (RefCount::Object*)g_other->obj)) return false;
  if(g_A && !g_e_freedA && g_A->ref != g_e_refA) return false; // reading a freed payload fails a pointer obligation
  if(g_B && !g_e_freedB && g_B->ref != g_e_refB) return false;
  return true;
}

void h_layout()
{
  P* z = 0;
  Node* n = 0;
  NV_CHECK((usize)&z->refObj == 0 && (usize)&z->obj == 8 && sizeof(P) == 16 && (usize)&n->ref == 8,
           "layout RefCount::Ptr == struct Ptr_L, Object::ref at offset 8");
}
} // extern "C"

// symbolic handle state: self/other refer to nothing (0), A (1) or B (2); extraA/extraB further
// handles exist elsewhere
#define NV_LEDGER_INPUTS() \
  NV_INPUT(usize, selfT); NV_INPUT(usize, otherT); NV_INPUT(bool, alias); \
  NV_INPUT(usize, extraA); NV_INPUT(usize, extraB); \
  NV_ASSUME(selfT <= 2 && otherT <= 2 && extraA <= NV_MAXSZ && extraB <= NV_MAXSZ); \
  NV_ASSUME(!alias || otherT == selfT)

static Node* target(usize t) { return t == 1 ? g_A : t == 2 ? g_B : (Node*)0; }

static void setup(P& self, P& other, usize selfT, usize otherT, bool alias, usize extraA, usize extraB)
{
  g_A = new Node; g_B = new Node;
  self.obj = target(selfT); self.refObj = self.obj;
  if(!alias) { other.obj = target(otherT); other.refObj = other.obj; }
  g_A->ref = (selfT == 1) + (!alias && otherT == 1) + extraA;
  g_B->ref = (selfT == 2) + (!alias && otherT == 2) + extraB;
}

// release payloads that are still referenced only by the ledger's "extra" handles
static void cleanup(P& self, P& other, bool alias)
{
  self.obj = 0; self.refObj = 0;
  if(!alias) { other.obj = 0; other.refObj = 0; }
  if(!g_e_freedA) delete g_A;
  if(!g_e_freedB) delete g_B;
}

static void expect(usize selfT2, usize otherT2, bool alias, usize extraA, usize extraB, bool hasOther)
{
  g_e_self = target(selfT2);
  g_e_other = target(otherT2);
  g_e_refA = (selfT2 == 1) + (hasOther && !alias && otherT2 == 1) + extraA;
  g_e_refB = (selfT2 == 2) + (hasOther && !alias && otherT2 == 2) + extraB;
}

extern "C" {

// -------------------------------------------------------------- Ptr()
void h_ctor_default()
{
  g_A = 0; g_B = 0; g_other = 0;
  g_e_self = 0;
  P self;
  g_self = &self;
  NV_POST("Ptr(): refers to nothing", ptr_post());
  NV_CHECK(ptr_post(), "Ptr(): refers to nothing");
  NV_REACH("ctor_default.return");
}

// -------------------------------------------------------------- Ptr(const Ptr& other)
void h_ctor_copy()
{
  NV_INPUT(usize, otherT); NV_INPUT(usize, extraA); NV_INPUT(usize, extraB);
  NV_ASSUME(otherT <= 2 && extraA <= NV_MAXSZ && extraB <= NV_MAXSZ);
  P other, dummy;
  setup(dummy, other, 0, otherT, false, extraA, extraB);
  g_other = &other;
  expect(otherT, otherT, false, extraA, extraB, true);
  g_e_freedA = false; g_e_freedB = false;
  {
    P self(other);
    g_self = &self;
    NV_POST("Ptr(const Ptr&): one more handle on the same payload", ptr_post());
    NV_CHECK(ptr_post(), "Ptr(const Ptr&): one more handle on the same payload");
    if(otherT) { NV_REACH("ctor_copy.shared"); }
    self.obj = 0; self.refObj = 0;
  }
  cleanup(dummy, other, false);
}

// -------------------------------------------------------------- ~Ptr()
void h_dtor()
{
  NV_INPUT(usize, selfT); NV_INPUT(usize, extraA); NV_INPUT(usize, extraB);
  NV_ASSUME(selfT <= 2 && extraA <= NV_MAXSZ && extraB <= NV_MAXSZ);
  P* self = (P*)new char[sizeof(P)]; // raw storage: the destructor runs exactly once, through the wrapper
  P dummy;
  setup(*self, dummy, selfT, 0, false, extraA, extraB);
  g_self = 0; g_other = 0;
  g_e_refA = extraA; g_e_refB = extraB;
  g_e_freedA = selfT == 1 && extraA == 0;
  g_e_freedB = selfT == 2 && extraB == 0;
  NV_PRE(wf_Ptr(self));
  w_Ptr_dtor(self);
  NV_POST("~Ptr(): one handle less; payload released exactly when it was the last", ptr_post());
  if(g_e_freedA) { NV_REACH("dtor.last"); }
  if(selfT == 1 && extraA > 0) { NV_REACH("dtor.shared"); }
  delete[] (char*)self;
  P d2;
  cleanup(d2, dummy, false);
}

// -------------------------------------------------------------- operator=(const Ptr& other)
void h_assign()
{
  NV_LEDGER_INPUTS();
  P self, other2;
  setup(self, other2, selfT, otherT, alias, extraA, extraB);
  P& other = *(alias ? &self : &other2);
  g_self = &self; g_other = alias ? (const P*)0 : &other2;
  expect(otherT, otherT, alias, extraA, extraB, true);
  g_e_freedA = g_e_refA == 0 && selfT == 1;
  g_e_freedB = g_e_refB == 0 && selfT == 2;
  NV_PRE(wf_Ptr(&self) && wf_Ptr(&other));
  w_Ptr_assign(&self, &other);
  NV_POST("operator=(const Ptr&): ledger consistent", ptr_post());
  if(g_e_freedA) { NV_REACH("assign.release"); }
  if(alias && selfT) { NV_REACH("assign.self"); }
  if(!alias && selfT && otherT && selfT != otherT) { NV_REACH("assign.retarget"); }
  cleanup(self, other2, alias);
}

// -------------------------------------------------------------- operator=(C* obj)
void h_assign_raw()
{
  NV_INPUT(usize, selfT); NV_INPUT(usize, rawT); NV_INPUT(usize, extraA); NV_INPUT(usize, extraB);
  NV_ASSUME(selfT <= 2 && rawT <= 2 && extraA <= NV_MAXSZ && extraB <= NV_MAXSZ);
  P self, dummy;
  setup(self, dummy, selfT, 0, false, extraA, extraB);
  g_self = &self; g_other = 0;
  expect(rawT, 0, false, extraA, extraB, false);
  g_e_freedA = g_e_refA == 0 && selfT == 1;
  g_e_freedB = g_e_refB == 0 && selfT == 2;
  NV_PRE(wf_Ptr(&self));
  w_Ptr_assign_raw(&self, target(rawT));
  NV_POST("operator=(C*): ledger consistent", ptr_post());
  if(g_e_freedA) { NV_REACH("assign_raw.release"); }
  if(selfT == rawT && selfT) { NV_REACH("assign_raw.same"); }
  cleanup(self, dummy, false);
}

// -------------------------------------------------------------- swap(other)
void h_swap()
{
  NV_LEDGER_INPUTS();
  P self, other2;
  setup(self, other2, selfT, otherT, alias, extraA, extraB);
  P& other = *(alias ? &self : &other2);
  g_self = &self; g_other = alias ? (const P*)0 : &other2;
  expect(otherT, selfT, alias, extraA, extraB, true);
  g_e_freedA = false; g_e_freedB = false;
  NV_PRE(wf_Ptr(&self) && wf_Ptr(&other));
  w_Ptr_swap(&self, &other);
  NV_POST("swap: handles exchange payloads, counts unchanged, nothing released", ptr_post());
  if(!alias && selfT != otherT) { NV_REACH("swap.different"); }
  cleanup(self, other2, alias);
}

} // extern "C"
