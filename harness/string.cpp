// C06 (and the String part of C09) -- String value semantics: harness entries and predicates over
// the real private fields.  Verified text: String.hpp after compat rules R2-R4 (member subset).
#define private public
#include <nstd/String.hpp>
#include <String.codecs.slice.cpp> // defines String::emptyData (verbatim line of src/String.cpp)
#ifdef NV_CASEMAP
#include <String.tables.slice.cpp> // String::lowerCaseMap / upperCaseMap (verbatim lines of src/String.cpp)
#endif
#undef private
#include "nvh.h"

#define HDR sizeof(String::Data) /* 32: heap blocks are [Data header][capacity + 1 chars] */

// DFCC makes statics nondeterministic: String::emptyData is an immutable sentinel
#define NV_STRING_STATICS() NV_ASSUME(String::emptyData.ref == 0 && String::emptyData.len == 0 && \
                                      String::emptyData.str == (const char*)&String::emptyData.len)

extern "C" {
// ---------------------------------------------------------------- ghost state
usize g_woff, g_woff2, g_cmp_wit, g_cmp_k; // contracts/memory.c
usize g_k;            // ghost view index
usize g_fk;           // ghost index used by loop invariants (contracts/*.loops.json)
usize g_exp_len;      // reference model: length afterwards
bool g_exp_has;       // reference model fixes byte g_k ...
char g_exp_byte;      // ... to this value
usize g_exp_mincap;   // lower bound for capacity() afterwards (0: none)
const String* g_b;    // second handle (0: none); must be unaffected by operations on a
String::Data* g_b_data0;
usize g_b_len0;
bool g_b_has; char g_b_byte; // byte g_k of b's view before
String::Data* g_blk0; // a's heap block before (0: a was not a heap string)
usize g_ref0;         // its reference count before = number of handles
bool g_a_keeps;       // model: a may keep using g_blk0 only if it was the sole owner
bool g_need2;         // the model byte travels through an intermediate position (self-append) ...
usize g_mid;          // ... at this view index of the final storage
bool g_mid_abs;       // ... or at this byte offset inside a temporary block
bool g_exp_sole;      // model: storage a did not have before is private to a (false for copy/assignment, which share)

// representation invariant
//   empty:    data == &emptyData
//   attached: data == &_data, ref == 0, str -> len + 1 readable foreign bytes
//   heap:     data -> block of 32 + capacity + 1 bytes, str == block + 32, len <= capacity,
//             ref >= 1 == number of handles.  NB: str[len] == 0 is NOT an invariant of the class:
//             resize() on an empty string leaves the new end unterminated and the const char*
//             conversion repairs that lazily -- the terminator is a postcondition of the conversion
bool wf_String(const String* s)
{
  const String::Data* d = s->data;
  if(d == &String::emptyData) return true;
  if(d == &s->_data)
    return d->ref == 0 && d->len <= NV_MAXSZ && NV_R_OK(d->str, d->len + 1);
  return NV_IS_DYNAMIC(d) && NV_OFFSET_IS(d, 0) && d->capacity <= NV_MAXSZ + 8 && d->len <= d->capacity &&
         NV_OBJECT_SIZE_IS(d, d->capacity + 1 + HDR) && d->str == (const char*)d + HDR && d->ref >= 1;
}

int kind_String(const String* s)
{
  return s->data == &String::emptyData ? 0 : s->data == &s->_data ? 1 : 2;
}

bool post_other_handle()
{
  if(!g_b) return true;
  if(!wf_String(g_b) || g_b->data != g_b_data0 || g_b->data->len != g_b_len0) return false;
  if(g_b_has && g_k < g_b_len0 && g_b->data->str[g_k] != g_b_byte) return false;
  return true;
}

// the old block: untouched count if a keeps it, one handle less otherwise (released by the
// contract's was_freed clause when that was the last one)
bool post_old_block(const String* a)
{
  if(!g_blk0) return true;
  if(a->data == g_blk0) return g_a_keeps && g_blk0->ref == g_ref0;
  if(g_ref0 == 1) return true; // released: checked with __CPROVER_was_freed in the contract
  return g_blk0->ref == g_ref0 - 1;
}

bool post_string(const String* a)
{
  if(!wf_String(a)) return false;
  const String::Data* d = a->data;
  if(d->len != g_exp_len) return false;
  if(g_exp_mincap && !(d->ref == 1 && d->capacity >= g_exp_mincap)) return false;
  if(g_exp_sole && d != &String::emptyData && d != &a->_data && d != g_blk0 && d->ref != 1) return false; // fresh block: one handle
  if(g_exp_has && g_k < d->len && NV_OFFSET(d->str) + g_k == g_woff && (!g_need2 || (g_mid_abs ? g_mid : NV_OFFSET(d->str) + g_mid) == g_woff2) &&
     d->str[g_k] != g_exp_byte) return false;
  return post_old_block(a) && post_other_handle();
}

// one-call wrapper carrying the destructor contract (harness locals have destructors of their own)
void w_String_dtor(String* s) { s->~String(); }

void h_layout()
{
  String* z = 0;
  String::Data* d = 0;
  NV_CHECK((usize)&z->data == 0 && (usize)&z->_data == 8 && sizeof(String) >= 40 && (usize)&d->str == 0 &&
           (usize)&d->len == 8 && (usize)&d->capacity == 16 && (usize)&d->ref == 24 && sizeof(String::Data) == 32,
           "layout String == struct String_L");
}
} // extern "C"

// ---------------------------------------------------------------- symbolic pre-state
// a: kind 0 empty, 1 attached to foreign memory, 2 heap (capacity cap, length len, share: b is
// a second handle on the same block, extra: further handles elsewhere -- only together with b,
// so that every illegal in-place write is visible through b)
#ifndef NV_KINDS
#define NV_KINDS 7
#endif
struct Pre
{
  usize kind, cap, len, extra;
  bool share;
  char* foreign;
};
#define NV_PRE_INPUTS(P) \
  NV_INPUT(usize, kind); NV_INPUT(usize, cap); NV_INPUT(usize, len); NV_INPUT(bool, share); NV_INPUT(usize, extra); \
  Pre P; P.kind = kind; P.cap = cap; P.len = len; P.share = share; P.extra = extra; P.foreign = 0; \
  NV_ASSUME(kind <= 2 && ((NV_KINDS >> kind) & 1)); \
  NV_ASSUME(kind != 0 || len == 0); \
  NV_ASSUME(cap <= NV_MAXSZ && len <= NV_MAXSZ && (kind != 2 || len <= cap)); \
  NV_ASSUME(kind == 2 || !share); NV_ASSUME(extra <= NV_MAXSZ && (extra == 0 || share))

#ifdef NV_NATIVE
static void nv_pattern(char* p, usize n, unsigned salt) { for(usize i = 0; i < n; ++i) p[i] = (char)('a' + (i * 7 + salt) % 23); }
#else
#define nv_pattern(p, n, salt) do { } while(0)
#endif

static void build(String& a, String& b, Pre& p)
{
  g_b = 0; g_blk0 = 0; g_ref0 = 0; g_b_has = false;
  if(p.kind == 1)
  {
    p.foreign = new char[p.len + 1];
    nv_pattern(p.foreign, p.len + 1, 3);
    a.data = &a._data; a._data.ref = 0; a._data.str = p.foreign; a._data.len = p.len;
  }
  else if(p.kind == 2)
  {
    String::Data* d = (String::Data*)new char[p.cap + 1 + HDR];
    d->str = (char*)d + HDR; d->len = p.len; d->capacity = p.cap;
    nv_pattern((char*)d->str, p.cap + 1, 5);
    ((char*)d->str)[p.len] = 0;
    d->ref = 1 + (p.share ? 1 : 0) + p.extra;
    a.data = d;
    g_blk0 = d; g_ref0 = d->ref;
    if(p.share)
    {
      b.data = d;
      g_b = &b; g_b_data0 = d; g_b_len0 = p.len;
    }
  }
  g_a_keeps = g_ref0 == 1;
}

// after the checks: detach the handles from their payloads so that the destructors of the harness
// locals do not add releases of their own
static void teardown(String& a, String& b, Pre& p)
{
  a.data = &String::emptyData;
  b.data = &String::emptyData;
  (void)p;
}

#define NV_GHOST() \
  NV_INPUT(usize, k); NV_INPUT(usize, woff); NV_INPUT(usize, woff2); NV_INPUT(char, vbyte); \
  g_k = k; g_woff = woff; g_woff2 = woff2; g_cmp_k = k; g_exp_has = false; g_exp_mincap = 0; g_exp_sole = true; g_need2 = false; g_mid = 0; g_mid_abs = false

static char pin(const String& s, usize i, char v)
{
  ((char*)s.data->str)[i] = v; // pin the otherwise arbitrary byte i of the view to input v
  return v;
}
static void watch_b(usize k, char vbyte)
{
  if(g_b && k < g_b_len0) { g_b_has = true; g_b_byte = pin(*g_b, k, vbyte); }
}

extern "C" {

// -------------------------------------------------------------- constructors / destructor
void h_ctor_default()
{
  NV_STRING_STATICS();
  NV_GHOST();
  g_b = 0; g_blk0 = 0; g_exp_len = 0;
  String a;
  NV_POST("String(): empty", post_string(&a));
  NV_CHECK(post_string(&a) && kind_String(&a) == 0, "String(): empty");
  NV_REACH("ctor_default.return");
}

void h_ctor_copy()
{
  NV_STRING_STATICS();
  NV_PRE_INPUTS(P);
  NV_GHOST();
  NV_ASSUME(!share && extra == 0);
  String o, dummy;
  build(o, dummy, P);
  // model: a new value equal to o; o unchanged, shares or copies
  g_b = &o; g_b_data0 = o.data; g_b_len0 = o.data->len; g_b_has = false;
  g_exp_len = o.data->len;
  if(k < g_exp_len) { g_exp_has = true; g_b_has = true; g_b_byte = g_exp_byte = pin(o, k, vbyte); }
  g_blk0 = 0; // the copy has no old block; the shared block's count is checked below
  g_exp_sole = false;
  NV_PRE(wf_String(&o));
  {
    String a(o);
    NV_POST("String(const String&): equal value, source unchanged", post_string(&a));
    NV_CHECK(kind == 2 ? (a.data == o.data && o.data->ref == 2) : (kind == 0 ? a.data == &String::emptyData : a.data->ref == 1),
             "String(const String&): heap source shared and counted twice, attached source copied");
    if(kind == 2) { NV_REACH("ctor_copy.share"); }
    if(kind == 1) { NV_REACH("ctor_copy.deep"); }
  }
  delete[] P.foreign;
}

void h_ctor_buf()
{
  NV_STRING_STATICS();
  NV_INPUT(usize, n);
  NV_GHOST();
  NV_ASSUME(n <= NV_MAXSZ);
  char* src = new char[n + 1];
  nv_pattern(src, n, 9);
  g_b = 0; g_blk0 = 0; g_exp_len = n; g_exp_mincap = n;
  if(k < n) { g_exp_has = true; g_exp_byte = src[k] = vbyte; }
  {
    String a(src, n);
    NV_POST("String(const char*, length): copy of the range", post_string(&a));
    NV_REACH("ctor_buf.return");
  }
  delete[] src;
}

void h_ctor_cap()
{
  NV_STRING_STATICS();
  NV_INPUT(usize, c);
  NV_GHOST();
  NV_ASSUME(c <= NV_MAXSZ);
  g_b = 0; g_blk0 = 0; g_exp_len = 0; g_exp_mincap = c;
  String a(c);
  NV_POST("String(capacity): empty with capacity", post_string(&a));
  NV_REACH("ctor_cap.return");
}

void h_ctor_fill()
{
  NV_STRING_STATICS();
  NV_INPUT(usize, n); NV_INPUT(char, c);
  NV_GHOST();
  NV_ASSUME(n <= NV_MAXSZ);
  g_b = 0; g_blk0 = 0; g_exp_len = n; g_exp_mincap = n; g_fk = k;
  if(k < n) { g_exp_has = true; g_exp_byte = c; g_woff = HDR + k; } // written directly (not through Memory::copy)
  String a(n, c);
  NV_POST("String(length, c): length copies of c", post_string(&a) && a.data->str[n] == 0);
  NV_REACH("ctor_fill.return");
}

void h_dtor()
{
  NV_STRING_STATICS();
  NV_PRE_INPUTS(P);
  String* a = (String*)new char[sizeof(String)];
  a->data = &String::emptyData;
  String b;
  build(*a, b, P);
  NV_PRE(wf_String(a));
  w_String_dtor(a);
  NV_POST("~String(): one handle less", post_other_handle() && (!g_blk0 || g_ref0 == 1 || g_blk0->ref == g_ref0 - 1));
  if(g_blk0 && g_ref0 == 1) { NV_REACH("dtor.last"); }
  if(g_blk0 && g_ref0 > 1) { NV_REACH("dtor.shared"); }
  teardown(*a, b, P);
  delete[] (char*)a;
  delete[] P.foreign;
}

// -------------------------------------------------------------- operator=(const String&)
void h_assign_op()
{
  NV_STRING_STATICS();
  NV_PRE_INPUTS(P);
  NV_INPUT(usize, okind); NV_INPUT(usize, ocap); NV_INPUT(usize, olen); NV_INPUT(bool, alias);
  NV_GHOST();
#ifdef NV_ALIAS
  NV_ASSUME(alias == (NV_ALIAS != 0));
#endif
  NV_ASSUME(okind <= 2 && (okind != 0 || olen == 0) && ocap <= NV_MAXSZ && olen <= NV_MAXSZ && (okind != 2 || olen <= ocap));
  String a, b, o2, dummy;
  build(a, b, P);
  Pre Q; Q.kind = okind; Q.cap = ocap; Q.len = olen; Q.share = false; Q.extra = 0; Q.foreign = 0;
  String::Data* keep_blk0 = g_blk0; usize keep_ref0 = g_ref0; const String* keep_b = g_b; String::Data* kbd = g_b_data0; usize kbl = g_b_len0;
  if(!alias) build(o2, dummy, Q);
  g_blk0 = keep_blk0; g_ref0 = keep_ref0; g_b = keep_b; g_b_data0 = kbd; g_b_len0 = kbl; g_b_has = false;
  String* op = alias ? &a : &o2;
  String& o = *op;
  g_exp_len = o.data->len;
  if(k < g_exp_len) { g_exp_has = true; g_exp_byte = pin(o, k, vbyte); }
  watch_b(k, vbyte);
  g_a_keeps = alias; // a = a keeps its block, otherwise a gives it up
  g_exp_sole = false; // assignment from a heap string shares its block
  if(alias && kind == 2) g_a_keeps = true;
  NV_PRE(wf_String(&a) && wf_String(&o));
  a = o;
  NV_POST("operator=: value of the source, other handles unaffected, old block released exactly when last", post_string(&a) && wf_String(&o));
  if(!alias && okind == 2) { NV_CHECK(a.data == o.data && o.data->ref == 2, "operator=: heap source shared and counted twice"); NV_REACH("assign_op.share"); }
  if(!alias && okind == 1) { NV_REACH("assign_op.deep"); }
  if(alias && kind == 2) { NV_REACH("assign_op.self"); }
  teardown(a, b, P);
  delete[] P.foreign; delete[] Q.foreign;
}

// -------------------------------------------------------------- clear()
void h_clear()
{
  NV_STRING_STATICS();
  NV_PRE_INPUTS(P);
  NV_GHOST();
  String a, b;
  build(a, b, P);
  g_exp_len = 0;
  watch_b(k, vbyte);
  NV_PRE(wf_String(&a));
  a.clear();
  NV_POST("clear(): empty, other handles unaffected", post_string(&a));
  if(g_blk0 && g_ref0 > 1) { NV_REACH("clear.shared"); }
  if(g_blk0 && g_ref0 == 1) { NV_REACH("clear.inplace"); }
  teardown(a, b, P);
  delete[] P.foreign;
}

// -------------------------------------------------------------- attach(str, length)
void h_attach()
{
  NV_STRING_STATICS();
  NV_PRE_INPUTS(P);
  NV_INPUT(usize, n);
  NV_GHOST();
  NV_ASSUME(n <= NV_MAXSZ);
  String a, b;
  build(a, b, P);
  char* mem = new char[n + 1];
  nv_pattern(mem, n + 1, 11);
  g_exp_len = n; g_a_keeps = false;
  if(k < n) { g_exp_has = true; g_exp_byte = mem[k] = vbyte; g_woff = k; }
  watch_b(k, vbyte);
  NV_PRE(wf_String(&a));
  a.attach(mem, n);
  NV_POST("attach(): view of the foreign range, old block released when last", post_string(&a) && a.data->str == mem);
  NV_REACH("attach.return");
  a.data = &String::emptyData;
  teardown(a, b, P);
  delete[] mem; delete[] P.foreign;
}

// -------------------------------------------------------------- resize(n) / reserve(n)
void h_resize()
{
  NV_STRING_STATICS();
  NV_PRE_INPUTS(P);
  NV_INPUT(usize, n);
  NV_GHOST();
  NV_ASSUME(n <= NV_MAXSZ);
  String a, b;
  build(a, b, P);
  usize old = a.data->len;
  g_exp_len = n; g_exp_mincap = n ? n : 0;
  if(k < old && k < n) { g_exp_has = true; g_exp_byte = pin(a, k, vbyte); }
  watch_b(k, vbyte);
  const String::Data* before = a.data;
  NV_PRE(wf_String(&a));
  a.resize(n);
  NV_POST("resize(): length n, common prefix kept, other handles unaffected", post_string(&a));
  if(a.data == before && kind == 2) { NV_REACH("resize.inplace"); }
  if(a.data != before && g_ref0 > 1) { NV_REACH("resize.unshare"); }
  if(a.data != before && kind == 1) { NV_REACH("resize.from_attached"); }
  teardown(a, b, P);
  delete[] P.foreign;
}

void h_reserve()
{
  NV_STRING_STATICS();
  NV_PRE_INPUTS(P);
  NV_INPUT(usize, n);
  NV_GHOST();
  NV_ASSUME(n <= NV_MAXSZ);
  String a, b;
  build(a, b, P);
  usize old = a.data->len;
  g_exp_len = old; g_exp_mincap = n > old ? n : old;
  if(g_exp_mincap == 0) g_exp_mincap = 0;
  if(k < old) { g_exp_has = true; g_exp_byte = pin(a, k, vbyte); }
  watch_b(k, vbyte);
  NV_PRE(wf_String(&a));
  a.reserve(n);
  NV_POST("reserve(): same value, capacity >= n, other handles unaffected", post_string(&a));
  NV_REACH("reserve.return");
  teardown(a, b, P);
  delete[] P.foreign;
}

// -------------------------------------------------------------- append(const char*, len) / append(char)
void h_append_buf()
{
  NV_STRING_STATICS();
  NV_PRE_INPUTS(P);
  NV_INPUT(usize, n);
  NV_GHOST();
  NV_ASSUME(n <= NV_MAXSZ);
  String a, b;
  build(a, b, P);
  char* src = new char[n + 1];
  nv_pattern(src, n, 13);
  usize old = a.data->len;
  g_exp_len = old + n;
  NV_ASSUME(g_exp_len <= NV_MAXSZ && k < g_exp_len);
  g_exp_has = true;
  if(k < old) g_exp_byte = pin(a, k, vbyte); else g_exp_byte = src[k - old] = vbyte;
  watch_b(k, vbyte);
  if(g_b && k < old && k < g_b_len0) { g_b_byte = vbyte; } // same byte of the shared block
  const String::Data* before = a.data;
  NV_PRE(wf_String(&a));
  a.append(src, n);
  NV_POST("append(const char*, len): old ++ src, other handles unaffected", post_string(&a));
  if(a.data == before && kind == 2) { NV_REACH("append_buf.inplace"); }
  if(a.data != before && g_ref0 > 1) { NV_REACH("append_buf.unshare"); }
  if(a.data != before && kind == 1) { NV_REACH("append_buf.from_attached"); }
  teardown(a, b, P);
  delete[] src; delete[] P.foreign;
}

void h_append_char()
{
  NV_STRING_STATICS();
  NV_PRE_INPUTS(P);
  NV_INPUT(char, c);
  NV_GHOST();
  String a, b;
  build(a, b, P);
  usize old = a.data->len;
  g_exp_len = old + 1;
  NV_ASSUME(g_exp_len <= NV_MAXSZ && k < g_exp_len);
  g_exp_has = true;
  if(k < old) g_exp_byte = pin(a, k, vbyte); else { g_exp_byte = c; g_woff = NV_OFFSET(a.data->str) + k; }
  watch_b(k, vbyte);
  NV_PRE(wf_String(&a));
  a.append(c);
  if(k == old) g_woff = NV_OFFSET(a.data->str) + k; // the new character is written directly, not copied
  NV_POST("append(char): old ++ c, other handles unaffected", post_string(&a));
  NV_REACH("append_char.return");
  teardown(a, b, P);
  delete[] P.foreign;
}

// -------------------------------------------------------------- append(const String&) incl. self
void h_append_str()
{
  NV_STRING_STATICS();
  NV_PRE_INPUTS(P);
  NV_INPUT(usize, okind); NV_INPUT(usize, ocap); NV_INPUT(usize, olen); NV_INPUT(bool, alias);
  NV_GHOST();
#ifdef NV_ALIAS
  NV_ASSUME(alias == (NV_ALIAS != 0));
#endif
  NV_ASSUME(okind <= 2 && (okind != 0 || olen == 0) && ocap <= NV_MAXSZ && olen <= NV_MAXSZ && (okind != 2 || olen <= ocap));
  String a, b, o2, dummy;
  build(a, b, P);
  Pre Q; Q.kind = okind; Q.cap = ocap; Q.len = olen; Q.share = false; Q.extra = 0; Q.foreign = 0;
  String::Data* keep_blk0 = g_blk0; usize keep_ref0 = g_ref0; const String* keep_b = g_b; String::Data* kbd = g_b_data0; usize kbl = g_b_len0;
  if(!alias) build(o2, dummy, Q);
  g_blk0 = keep_blk0; g_ref0 = keep_ref0; g_b = keep_b; g_b_data0 = kbd; g_b_len0 = kbl; g_b_has = false;
  g_a_keeps = g_ref0 == 1;
#if defined(NV_ALIAS) && NV_ALIAS
  String* op = &a;
#elif defined(NV_ALIAS)
  String* op = &o2;
#else
  String* op = alias ? &a : &o2;
#endif
  String& o = *op;
  usize old = a.data->len, n = o.data->len;
  g_exp_len = old + n;
  NV_ASSUME(g_exp_len <= NV_MAXSZ && k < g_exp_len);
  g_exp_has = true;
  if(k < old) g_exp_byte = pin(a, k, vbyte); else g_exp_byte = pin(o, k - old, vbyte);
  if(g_b && k < g_b_len0) { g_b_has = true; g_b_byte = g_b->data->str[k]; }
  // a.append(a) with reallocation copies byte k-old to the new block first and from there to k
  if(alias && k >= old) { g_need2 = true; g_mid = k - old; }
  NV_PRE(wf_String(&a) && wf_String(&o));
  a.append(o);
  NV_POST("append(const String&): old ++ other (also for other == *this)", post_string(&a) && (alias || wf_String(&o)));
  if(alias && n > 0) { NV_REACH("append_str.self"); }
  if(!alias && n > 0 && old > 0) { NV_REACH("append_str.other"); }
  teardown(a, b, P);
  delete[] P.foreign; delete[] Q.foreign;
}

// -------------------------------------------------------------- operator const char*() const
void h_cstr()
{
  NV_STRING_STATICS();
  NV_PRE_INPUTS(P);
  NV_GHOST();
  String a, b;
  build(a, b, P);
  usize old = a.data->len;
  g_exp_len = old;
  if(k < old) { g_exp_has = true; g_exp_byte = pin(a, k, vbyte); }
  watch_b(k, vbyte);
  // a terminated heap string is returned as it is, however many handles share it; an unterminated
  // one is terminated in place when a is the sole owner and copied otherwise
  g_a_keeps = kind != 2 || a.data->str[old] == 0 || g_ref0 == 1;
  NV_PRE(wf_String(&a));
  const String& ca = a;
  const char* p = ca;
  NV_POST("operator const char*: NUL-terminated at length(), same bytes", post_string(&a) && p == a.data->str && p[old] == 0);
  NV_CHECK(p == a.data->str && p[old] == 0, "operator const char*: C-string view is NUL-terminated at length()");
  if(kind == 1) { NV_REACH("cstr.attached"); }
  teardown(a, b, P);
  delete[] P.foreign;
}


// -------------------------------------------------------------- prepend(const char*, len)
void h_prepend_buf()
{
  NV_STRING_STATICS();
  NV_PRE_INPUTS(P);
  NV_INPUT(usize, n);
  NV_GHOST();
  NV_ASSUME(n <= NV_MAXSZ);
  String a, b;
  build(a, b, P);
  char* src = new char[n + 1];
  nv_pattern(src, n, 13);
  usize old = a.data->len;
  g_exp_len = old + n;
  NV_ASSUME(g_exp_len <= NV_MAXSZ && k < g_exp_len);
  g_exp_has = true;
  if(k < n) g_exp_byte = src[k] = vbyte; else g_exp_byte = pin(a, k - n, vbyte);
  if(g_b && k < g_b_len0) { g_b_has = true; g_b_byte = g_b->data->str[k]; }
  // an attached string is first deep-copied into a temporary block (String copy(*this)): its byte
  // i sits at offset HDR + i of that block before it reaches the final storage
  if(kind == 1 && k >= n) { g_need2 = true; g_mid_abs = true; g_mid = HDR + (k - n); }
  NV_PRE(wf_String(&a));
  a.prepend(src, n);
  NV_POST("prepend(const char*, len): src ++ old, other handles unaffected", post_string(&a));
  NV_REACH("prepend_buf.return");
  teardown(a, b, P);
  delete[] src; delete[] P.foreign;
}

// -------------------------------------------------------------- prepend(const String&) incl. self
void h_prepend_str()
{
  NV_STRING_STATICS();
  NV_PRE_INPUTS(P);
  NV_INPUT(usize, okind); NV_INPUT(usize, ocap); NV_INPUT(usize, olen); NV_INPUT(bool, alias);
  NV_GHOST();
#ifdef NV_ALIAS
  NV_ASSUME(alias == (NV_ALIAS != 0));
#endif
  NV_ASSUME(okind <= 2 && (okind != 0 || olen == 0) && ocap <= NV_MAXSZ && olen <= NV_MAXSZ && (okind != 2 || olen <= ocap));
  String a, b, o2, dummy;
  build(a, b, P);
  Pre Q; Q.kind = okind; Q.cap = ocap; Q.len = olen; Q.share = false; Q.extra = 0; Q.foreign = 0;
  String::Data* keep_blk0 = g_blk0; usize keep_ref0 = g_ref0; const String* keep_b = g_b; String::Data* kbd = g_b_data0; usize kbl = g_b_len0;
  if(!alias) build(o2, dummy, Q);
  g_blk0 = keep_blk0; g_ref0 = keep_ref0; g_b = keep_b; g_b_data0 = kbd; g_b_len0 = kbl; g_b_has = false;
  g_a_keeps = false; // prepend always moves to new storage (it keeps a temporary copy of itself)
#if defined(NV_ALIAS) && NV_ALIAS
  String* op = &a;
#elif defined(NV_ALIAS)
  String* op = &o2;
#else
  String* op = alias ? &a : &o2;
#endif
  String& o = *op;
  usize old = a.data->len, n = o.data->len;
  g_exp_len = old + n;
  NV_ASSUME(g_exp_len <= NV_MAXSZ && k < g_exp_len);
  g_exp_has = true;
  if(k < n) g_exp_byte = pin(o, k, vbyte); else g_exp_byte = pin(a, k - n, vbyte);
  if(g_b && k < g_b_len0) { g_b_has = true; g_b_byte = g_b->data->str[k]; }
  if(kind == 1 && k >= n) { g_need2 = true; g_mid_abs = true; g_mid = HDR + (k - n); }
  NV_PRE(wf_String(&a) && wf_String(&o));
  a.prepend(o);
  NV_POST("prepend(const String&): other ++ old (also for other == *this)", post_string(&a) && (alias || wf_String(&o)));
  if(alias && n > 0) { NV_REACH("prepend_str.self"); }
  if(!alias && n > 0 && old > 0) { NV_REACH("prepend_str.other"); }
  teardown(a, b, P);
  delete[] P.foreign; delete[] Q.foreign;
}

// -------------------------------------------------------------- operator== / operator!=
bool post_str_eq(const String* a, const String* o, bool r)
{
  usize la = a->data->len, lo = o->data->len;
  if(r) return la == lo && (g_cmp_k >= la || a->data->str[g_cmp_k] == o->data->str[g_cmp_k]);
  return la != lo || (g_cmp_wit < la && a->data->str[g_cmp_wit] != o->data->str[g_cmp_wit]);
}
void h_eq()
{
  NV_STRING_STATICS();
  NV_PRE_INPUTS(P);
  NV_INPUT(usize, okind); NV_INPUT(usize, ocap); NV_INPUT(usize, olen);
  NV_GHOST();
  NV_ASSUME(okind <= 2 && (okind != 0 || olen == 0) && ocap <= NV_MAXSZ && olen <= NV_MAXSZ && (okind != 2 || olen <= ocap));
  String a, b, o, dummy;
  build(a, b, P);
  Pre Q; Q.kind = okind; Q.cap = ocap; Q.len = olen; Q.share = false; Q.extra = 0; Q.foreign = 0;
  build(o, dummy, Q);
  NV_PRE(wf_String(&a) && wf_String(&o));
  bool r = a == o;
  NV_CHECK(post_str_eq(&a, &o, r), "operator== <=> equal length and equal bytes");
  bool r2 = a != o; // (a second, independent use of the Memory::compare contract)
  NV_CHECK(post_str_eq(&a, &o, !r2), "operator!= <=> different length or different bytes");
  if(r && a.data->len > 0) { NV_REACH("eq.true"); }
  if(!r && a.data->len == o.data->len) { NV_REACH("eq.false_content"); }
  teardown(a, b, P); teardown(o, dummy, Q);
  delete[] P.foreign; delete[] Q.foreign;
}


// -------------------------------------------------------------- find(char) / findLast(char)  (loop contracts)
const char* g_fs_str; usize g_fs_len; char g_fc; // ghosts for the scanning loops
bool str_find_post(const String* a, char c, const char* ret)
{
  const char* b = a->data->str; usize len = a->data->len;
  if(b != g_fs_str || len != g_fs_len) return false;                      // pure
  if(!ret) return g_fk >= len || b[g_fk] != c;                           // no occurrence at all
  return ret >= b && ret < b + len && *ret == c && (g_fk >= (usize)(ret - b) || b[g_fk] != c); // the FIRST one
}
bool str_findLast_post(const String* a, char c, const char* ret)
{
  const char* b = a->data->str; usize len = a->data->len;
  if(b != g_fs_str || len != g_fs_len) return false;
  if(!ret) return g_fk >= len || b[g_fk] != c;
  return ret >= b && ret < b + len && *ret == c && (g_fk <= (usize)(ret - b) || g_fk >= len || b[g_fk] != c); // the LAST one
}
void h_find_char()
{
  NV_STRING_STATICS();
  NV_PRE_INPUTS(P);
  NV_INPUT(char, c); NV_INPUT(usize, fk);
  String a, b;
  build(a, b, P);
  g_fs_str = a.data->str; g_fs_len = a.data->len; g_fk = fk; g_fc = c;
  NV_PRE(wf_String(&a));
  const char* r = a.find(c);
  NV_POST("find(char): first occurrence or null", str_find_post(&a, c, r));
  if(r && r != a.data->str) { NV_REACH("find_char.hit"); }
  if(!r && a.data->len > 0) { NV_REACH("find_char.miss"); }
  teardown(a, b, P);
  delete[] P.foreign;
}
void h_findLast_char()
{
  NV_STRING_STATICS();
  NV_PRE_INPUTS(P);
  NV_INPUT(char, c); NV_INPUT(usize, fk);
  String a, b;
  build(a, b, P);
  g_fs_str = a.data->str; g_fs_len = a.data->len; g_fk = fk; g_fc = c;
  NV_PRE(wf_String(&a));
  const char* r = a.findLast(c);
  NV_POST("findLast(char): last occurrence or null", str_findLast_post(&a, c, r));
  if(r && r != a.data->str + a.data->len - 1) { NV_REACH("findLast_char.hit"); }
  if(!r && a.data->len > 0) { NV_REACH("findLast_char.miss"); }
  teardown(a, b, P);
  delete[] P.foreign;
}

// -------------------------------------------------------------- startsWith / endsWith (loop-free: Memory::compare contract)
static bool affix_ok(const String& a, const String& o, bool r, bool suffix)
{
  usize la = a.data->len, lo = o.data->len;
  const char* base = suffix ? a.data->str + (la >= lo ? la - lo : 0) : a.data->str;
  if(r) return la >= lo && (g_cmp_k >= lo || base[g_cmp_k] == o.data->str[g_cmp_k]);
  return la < lo || (g_cmp_wit < lo && base[g_cmp_wit] != o.data->str[g_cmp_wit]);
}
void h_affix()
{
  NV_STRING_STATICS();
  NV_PRE_INPUTS(P);
  NV_INPUT(usize, okind); NV_INPUT(usize, ocap); NV_INPUT(usize, olen);
  NV_GHOST();
  NV_ASSUME(okind <= 2 && (okind != 0 || olen == 0) && ocap <= NV_MAXSZ && olen <= NV_MAXSZ && (okind != 2 || olen <= ocap));
  String a, b, o, dummy;
  build(a, b, P);
  Pre Q; Q.kind = okind; Q.cap = ocap; Q.len = olen; Q.share = false; Q.extra = 0; Q.foreign = 0;
  build(o, dummy, Q);
  NV_PRE(wf_String(&a) && wf_String(&o));
  bool r = a.startsWith(o);
  NV_CHECK(affix_ok(a, o, r, false), "startsWith <=> the first other.length() bytes are other's");
  bool r2 = a.endsWith(o);
  NV_CHECK(affix_ok(a, o, r2, true), "endsWith <=> the last other.length() bytes are other's");
  if(r && olen > 0) { NV_REACH("affix.prefix"); }
  if(r2 && olen > 0 && a.data->len > olen) { NV_REACH("affix.suffix"); }
  teardown(a, b, P); teardown(o, dummy, Q);
  delete[] P.foreign; delete[] Q.foreign;
}

// -------------------------------------------------------------- substr(start, length)
void h_substr()
{
  NV_STRING_STATICS();
  NV_PRE_INPUTS(P);
  NV_INPUT(ssize, start); NV_INPUT(ssize, length);
  NV_GHOST();
  String a, b;
  build(a, b, P);
  usize len0 = a.data->len;
  // reference model (documented clamping): negative start counts from the end; range clipped to the string
  ssize st = start < 0 ? ((ssize)len0 + start < 0 ? 0 : (ssize)len0 + start) : ((usize)start > len0 ? (ssize)len0 : start);
  usize en = length >= 0 ? ((usize)st + (usize)length > len0 ? len0 : (usize)st + (usize)length) : len0;
  NV_ASSUME(start > -(ssize)NV_MAXSZ && start < (ssize)NV_MAXSZ && length < (ssize)NV_MAXSZ);
  g_b = 0; g_blk0 = 0;
  g_exp_len = en - (usize)st; g_exp_sole = true;
  if(k < g_exp_len) { g_exp_has = true; g_exp_byte = pin(a, (usize)st + k, vbyte); }
  NV_PRE(wf_String(&a));
  {
    String r = a.substr(start, length);
    NV_CHECK(post_string(&r) && r.data != a.data, "substr: independent copy of the clipped range");
    NV_CHECK(a.data->len == len0, "substr: source unchanged");
    if(g_exp_len > 0 && st > 0) { NV_REACH("substr.inner"); }
    r.data = &String::emptyData;
  }
  teardown(a, b, P);
  delete[] P.foreign;
}


// -------------------------------------------------------------- compare(const String&): memory safety for every pair
// of strings, including attached memory without terminator (the conversions must repair that
// before the scan) -- loop contract: both cursors stay inside [str, str + len]
bool str_compare_post(const String* a, const String* o, int r)
{
  (void)r;
  return wf_String(a) && wf_String(o) && a->data->str[a->data->len] == 0 && o->data->str[o->data->len] == 0;
}
void h_compare_str()
{
  NV_STRING_STATICS();
  NV_PRE_INPUTS(P);
  NV_INPUT(usize, okind); NV_INPUT(usize, ocap); NV_INPUT(usize, olen);
  NV_ASSUME(okind <= 2 && (okind != 0 || olen == 0) && ocap <= NV_MAXSZ && olen <= NV_MAXSZ && (okind != 2 || olen <= ocap));
  NV_ASSUME(!share && extra == 0);
  String a, b, o, dummy;
  build(a, b, P);
  Pre Q; Q.kind = okind; Q.cap = ocap; Q.len = olen; Q.share = false; Q.extra = 0; Q.foreign = 0;
  build(o, dummy, Q);
  NV_PRE(wf_String(&a) && wf_String(&o));
  int r = a.compare(o);
  NV_POST("compare(const String&): both operands terminated at length(), scan stays inside them", str_compare_post(&a, &o, r));
  if(kind == 1 && okind == 1) { NV_REACH("compare_str.attached"); }
  teardown(a, b, P); teardown(o, dummy, Q);
  delete[] P.foreign; delete[] Q.foreign;
}


// -------------------------------------------------------------- replace(char needle, char replacement)  (loop contract)
// For every position k < length(): the byte is the replacement if it was the needle, unchanged
// otherwise; length, other handles, ledger as usual.
char g_orig; char g_needle, g_repl;
bool post_replace(const String* a)
{
  if(!wf_String(a)) return false;
  const String::Data* d = a->data;
  if(d->len != g_exp_len || d->str[d->len] != 0) return false;
  if(g_exp_has && g_k < d->len && NV_OFFSET(d->str) + g_k == g_woff &&
     d->str[g_k] != (g_orig == g_needle ? g_repl : g_orig)) return false; // EVERY byte is mapped (reference byte string)
  return post_old_block(a) && post_other_handle();
}
void h_replace_char()
{
  NV_STRING_STATICS();
  NV_PRE_INPUTS(P);
  NV_INPUT(char, needle); NV_INPUT(char, repl);
  NV_GHOST();
  String a, b;
  build(a, b, P);
  usize old = a.data->len;
  g_exp_len = old; g_needle = needle; g_repl = repl; g_fk = k;
  if(k < old) { g_exp_has = true; g_orig = pin(a, k, vbyte); }
  watch_b(k, vbyte);
  NV_PRE(wf_String(&a));
  a.replace(needle, repl);
  NV_POST("replace(char, char): bytes unchanged or needle -> replacement; sharers unaffected", post_replace(&a));
  if(g_blk0 && g_ref0 > 1) { NV_REACH("replace_char.unshare"); }
  if(g_blk0 && g_ref0 == 1) { NV_REACH("replace_char.inplace"); }
  teardown(a, b, P);
  delete[] P.foreign;
}

#ifdef NV_CASEMAP
// ============================================================== case mapping / replace(char, char) against the reference byte string
// reference model: a byte string of n bytes (ANY byte values, NUL included); case mapping is the
// ASCII one ('A'..'Z' <-> 'a'..'z', every other byte value fixed) applied to EVERY byte; replace
// maps every byte equal to the needle.  A copy taken before must keep the old bytes.
// Split: casemap_table proves the two tables equal the ASCII maps (all 256 values, no DFCC, real
// initialisers); the bounded units prove byte k of the result == table[byte k of the input].
#define SPEC_LOWER(c) (((c) >= 'A' && (c) <= 'Z') ? (char)((c) + 32) : (c))
#define SPEC_UPPER(c) (((c) >= 'a' && (c) <= 'z') ? (char)((c) - 32) : (c))
void h_casemap_table()
{ // loop-free: all 256 byte values
  NV_INPUT(char, c);
  NV_CHECK(String::toLowerCase(c) == SPEC_LOWER(c), "toLowerCase(char) == ASCII lower-case map");
  NV_CHECK(String::toUpperCase(c) == SPEC_UPPER(c), "toUpperCase(char) == ASCII upper-case map");
  if(c == 'Q') { NV_REACH("casemap_table.letter"); }
}
#ifndef NV_MAPOP
#define NV_MAPOP 0 /* 0 toLowerCase(), 1 toUpperCase(), 2 replace(needle, replacement) */
#endif
void h_b_bytemap()
{
  NV_INPUT_ARR(char, bytes, 3); NV_INPUT(usize, n); NV_INPUT(usize, k); NV_INPUT(char, needle); NV_INPUT(char, repl);
  NV_ASSUME(n <= 3 && k < n);
  const char ck = bytes[k];
  g_woff = g_woff2 = HDR + k; // Memory::copy contracts: byte k of every heap block is the watched one
  String a(&bytes[0], n);
  String b(a);
#if NV_MAPOP == 0
  const char want = String::lowerCaseMap[(unsigned char)ck]; // statics are nondeterministic under DFCC: the table's CONTENT is unit casemap_table
  String* r = &a.toLowerCase();
#elif NV_MAPOP == 1
  const char want = String::upperCaseMap[(unsigned char)ck];
  String* r = &a.toUpperCase();
#else
  const char want = ck == needle ? repl : ck;
  String* r = &a.replace(needle, repl);
#endif
  NV_CHECK(r == &a && a.data->len == n && a.data->str[n] == 0, "byte map: same length, terminated, returns *this");
  NV_CHECK(a.data->str[k] == want, "byte map: every byte of the string is mapped (reference byte string)");
  NV_CHECK(b.data->len == n && b.data->str[k] == ck && b.data != a.data, "byte map: a copy taken before keeps its bytes");
  const char c1 = bytes[1];
  if(n == 3 && k == 2 && c1 == 0) { NV_REACH("b_bytemap.after_nul"); }
  if(n == 3 && k == 2 && want != ck) { NV_REACH("b_bytemap.mapped"); }
}
#endif

} // extern "C"
