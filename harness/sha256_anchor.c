/* C17 -- the FIPS 180-4 spec functions are anchored on standard test vectors (concrete run).
 * Plain C: goto-cc's C++ front end rejects the initialised static arrays. */
#include "fips180.h"
#ifdef NV_NATIVE
#include <stdio.h>
#define NV_CHECK(c, tag) printf("NV-POST %s: %s\n", tag, (c) ? "holds" : "VIOLATED")
#define NV_REACH(tag)
#else
#define NV_CHECK(c, tag) __CPROVER_assert(c, tag)
#define NV_REACH(tag) __CPROVER_assert(0, "NV-REACH " tag)
#endif
// the spec itself is anchored on the two FIPS 180-4 / RFC 6234 test vectors (concrete run)
void h_spec_anchor()
{
  static const fips_u8 abc[3] = {'a', 'b', 'c'};
  static const fips_u8 e1[32] = {0xba,0x78,0x16,0xbf,0x8f,0x01,0xcf,0xea,0x41,0x41,0x40,0xde,0x5d,0xae,0x22,0x23,
                                 0xb0,0x03,0x61,0xa3,0x96,0x17,0x7a,0x9c,0xb4,0x10,0xff,0x61,0xf2,0x00,0x15,0xad};
  static const fips_u8 m2[57] = "abcdbcdecdefdefgefghfghighijhijkijkljklmklmnlmnomnopnopq";
  static const fips_u8 e2[32] = {0x24,0x8d,0x6a,0x61,0xd2,0x06,0x38,0xb8,0xe5,0xc0,0x26,0x93,0x0c,0x3e,0x60,0x39,
                                 0xa3,0x3c,0xe4,0x59,0x64,0xff,0x21,0x67,0xf6,0xec,0xed,0xd4,0x19,0xdb,0x06,0xc1};
  fips_u8 d[32];
  _Bool ok = 1;
  fips_sha256(abc, 3, d);
  for(int i = 0; i < 32; i++) ok = ok && d[i] == e1[i];
  fips_sha256(m2, 56, d);
  for(int i = 0; i < 32; i++) ok = ok && d[i] == e2[i];
  NV_CHECK(ok, "spec anchor: fips_sha256 reproduces the FIPS 180-4 test vectors 'abc' and the 448-bit message");
  NV_REACH("spec_anchor.return");
}

