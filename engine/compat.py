"""The compat layer: the COMPLETE list of differences between /repo's text and the text CBMC
compiles (DESIGN.md 3.2).  Every rule is mechanical, carries an expected match count and a
justification; a rule that does not fire exactly raises (-> exit 2 'extraction broke')."""
import os
import re

# (file, kind, pattern, replacement, expected_count, why)
RULES = [
    ("include/nstd/Crypto/Sha256.hpp", "literal",
     "sha256.finalize((byte (&)[digestSize])hashKey);",
     "{ byte nvDigest[digestSize]; sha256.finalize(nvDigest); Memory::copy(hashKey, nvDigest, digestSize); }",
     1, "R5: goto-cc rejects the cast to reference-to-array; finalize writes exactly digestSize bytes "
        "through the reference, so finalizing into a temporary and copying 32 bytes is equivalent"),
]


def apply(tree):
    fired = []
    for (f, kind, pat, rep, count, why) in RULES:
        p = os.path.join(tree, f)
        s = open(p).read()
        if kind == "literal":
            n = s.count(pat)
            s2 = s.replace(pat, rep)
        else:
            s2, n = re.subn(pat, rep, s, flags=re.M | re.S)
        if n != count:
            raise RuntimeError("compat rule on %s expected %d matches, found %d: %r" % (f, count, n, pat[:60]))
        open(p, "w").write(s2)
        fired.append({"file": f, "kind": kind, "pattern": pat[:100], "count": n, "why": why})
    return fired
