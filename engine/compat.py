"""The compat layer: the COMPLETE list of differences between /repo's text and the text CBMC
compiles (DESIGN.md 3.2).  Every rule is mechanical, carries an expected match count and a
justification; a rule that does not fire exactly raises (-> exit 2 'extraction broke')."""
import os
import re

# (file, kind, pattern, replacement, expected_count, why)
RULES = [
] + [
    ("include/nstd/%s.hpp" % h, "regex", r"const Iterator& (begin|end)\(\) const \{return (_begin|_end);\}",
     r"const Iterator& \1() const {return (Iterator&)\2;}", 2,
     "R1: goto-cc loses 'const' on class-typed reference returns of const methods; same object returned")
    for h in ("List", "HashMap", "HashSet", "Map", "MultiMap", "PoolList", "PoolMap", "Array")
] + [
    ("include/nstd/Crypto/Sha256.hpp", "literal",
     "sha256.finalize((byte (&)[digestSize])hashKey);",
     "{ byte nvDigest[digestSize]; sha256.finalize(nvDigest); Memory::copy(hashKey, nvDigest, digestSize); }",
     1, "R5: goto-cc rejects the cast to reference-to-array; finalize writes exactly digestSize bytes "
        "through the reference, so finalizing into a temporary and copying 32 bytes is equivalent"),
    # ---- String.hpp member subset (DESIGN.md P8)
    ("include/nstd/String.hpp", "regex",
     r"  template<usize N> String\(const char\(&str\)\[N\]\) : data\(&_data\)\n  \{\n    _data\.ref = 0;\n    _data\.str = str;\n    _data\.len = N - 1;\n  \}\n",
     "", 1, "R2: goto-cc cannot instantiate template<usize N> members; the literal-attached state (ref 0, foreign str, len) "
            "is built in harnesses through attach(), whose body assigns the same three fields"),
    ("include/nstd/String.hpp", "regex",
     r"  template<usize N> (String operator\+|bool operator==|bool operator!=)\(const char ?\(&str\)\[N\]\) const \{[^\n]*\}\n",
     "", 3, "R2: template<usize N> operator+/==/!= for literals deleted (remaining members do not call them)"),
    ("include/nstd/String.hpp", "regex",
     r"  bool toBool\(\) const\n  \{.*?\n  \}\n(?=\n  String token)",
     "  bool toBool() const;\n", 1, "R2: toBool() uses the deleted literal templates; declaration kept, body dropped (not verified)"),
    ("include/nstd/String.hpp", "literal",
     '  static String fromBool(bool value) {return value ? String("true") : String("false");}\n',
     "  static String fromBool(bool value);\n", 1, "R2: fromBool() uses the deleted literal constructor; declaration kept, body dropped (not verified)"),
    ("include/nstd/String.hpp", "regex",
     r"  operator const char\*\(\)\n  \{\n      if\(data->str\[data->len\]\)\n          const_cast<String\*>\(this\)->detach\(data->len, data->len\);\n      return data->str;\n  \}\n\n",
     "", 1, "R3: the non-const operator const char*() gets the same symbol name as the const overload in goto-cc; "
            "its body is byte-identical to the const one (this rule matches the exact text), which remains"),
    ("include/nstd/String.hpp", "literal", "  operator char*()\n", "  char* nvMutable()\n", 1,
     "R4: goto-cc names every conversion operator 'operatorname'; the mutable conversion is renamed (name only)"),
    # ---- RefCount.hpp: member templates of Ptr (DESIGN.md P12)
    ("include/nstd/RefCount.hpp", "regex", r"    template<class [DC]> friend class Ptr;\n", "", 2,
     "R6: friend templates rejected by goto-cc; access only (harness overrides access)"),
    ("include/nstd/RefCount.hpp", "regex",
     r"    template <class D> Ptr\(const Ptr<D>& other\) : refObj\(other\.refObj\), obj\(other\.obj\)\n    \{\n      if\(refObj\)\n        Atomic::increment\(refObj->ref\);\n    \}\n\n",
     "", 1, "R6: converting copy constructor template deleted (goto-cc cannot resolve member-template overloads); body identical to the copy constructor, which is verified"),
    ("include/nstd/RefCount.hpp", "regex",
     r"    template <class D> Ptr\(D\* obj\) : refObj\(obj\), obj\(obj\)\n    \{\n      if\(refObj\)\n        Atomic::increment\(refObj->ref\);\n    \}\n\n",
     "", 1, "R6: constructor template from a raw pointer deleted (unsupported member template constructor); NOT verified -- "
            "harnesses attach raw pointers through operator=(C*)"),
    ("include/nstd/RefCount.hpp", "regex", r"    template <class D> Ptr& operator=\(const Ptr<D>& other\)\n    \{.*?\n    \}\n\n",
     "", 1, "R6: converting assignment template deleted; body identical to operator=(const Ptr&), which is verified"),
    ("include/nstd/RefCount.hpp", "regex", r"    template <class D> bool operator[=!]=\([^\n]*\n", "", 4,
     "R6: comparison templates deleted (one-line pointer comparisons, not part of C09)"),
    ("src/Socket/Server.cpp", "literal", "ssize sent = client.send(client._sendBuffer, client._sendBuffer.size());",
     "const Buffer& nvSendBuffer = client._sendBuffer; const byte* nvSendData = nvSendBuffer; ssize sent = client.send(nvSendData, client._sendBuffer.size());", 1,
     "R8: goto-cc does not apply the user-defined conversion Buffer -> const byte* to a call argument; "
     "the conversion (operator const byte*() const, returns bufferStart) is applied in an initialisation instead"),
    ("src/Socket/Server.cpp", "literal", "client._callback->onClosed();", "nv_cb_onClosed(client._callback);", 2,
     "R9: cbmc 6.11 aborts on C++ virtual dispatch (boolbv_width: nil type); the callback invocation is replaced by a recorder hook "
     "with the same receiver (extern \"C\" void nv_cb_onClosed(void*)); only the occurrence inside the write-ready branch is sliced"),
    ("src/Socket/Server.cpp", "literal", "client._callback->onWrite();", "nv_cb_onWrite(client._callback);", 1,
     "R9: as above for onWrite"),
    ("include/nstd/Process.hpp", "literal", 'static bool daemonize(const String& logFile = "/dev/null");',
     "static bool daemonize(const String& logFile);", 1,
     "R11: default argument built from a string literal needs the String literal constructor deleted by R2; declaration only, not part of any slice"),
    ("src/String.cpp", "literal", "  char* dest = result;\n", "  char* dest = result.nvMutable();\n", 1,
     "R4: call site of the renamed conversion operator (String::fromHex)"),
    ("src/String.cpp", "literal", "    char* out = (char*)result;\n", "    char* out = result.nvMutable();\n", 1,
     "R4: call site of the renamed conversion operator (String::fromBase64)"),
]
# applied only with NV_ARRAY=1 (the parked Array units, see units/_array_units.py): no registered unit reads Array.hpp's destructor
OPTIONAL_RULES = [
    ("include/nstd/Array.hpp", "literal", "  ~Array()\n  {\n    if(_begin.item)", "  ~Array() { nvDestroy(); }\n  void nvDestroy()\n  {\n    if(_begin.item)", 1,
     "R12: goto-cc cannot use the class template parameter inside a destructor of the template (\"template parameter without instance\"); "
     "the destructor body is moved verbatim into a member function that the destructor calls"),
]


# Function slices: files the front end cannot take whole (variadic printf family, POSIX headers).
# (source file, output file, [exact first lines of the function definitions to extract], prelude,
#  [single definition lines copied verbatim, each must occur exactly once])
# The text between the signature line and the matching closing brace is copied VERBATIM (after the
# rules above); everything else of the file is dropped and so not verified.
SLICES = [
    ("src/String.cpp", "src/String.codecs.slice.cpp",
     ["String String::fromHex(const byte* data, usize size)", "String String::fromBase64(const String& data)"],
     "#include <nstd/String.hpp>\n", ["String::EmptyData String::emptyData;"]),
    ("src/Process.cpp", "src/Process.args.slice.cpp",
     ["bool Process::Arguments::nextChar()", "bool Process::Arguments::read(int& character, String& argument)"],
     "#include <nstd/Process.hpp>\n", []),
]


# definitions sliced by line prefix (the whole line is taken verbatim, whatever its initialiser says)
PREFIX_SLICES = [
    ("src/String.cpp", "src/String.tables.slice.cpp", "#include <nstd/String.hpp>\n",
     ["char String::lowerCaseMap[0x101] = ", "char String::upperCaseMap[0x101] = "]),
]


def _respell_string_initialiser(line, fname):
    """`char X[N] = "...";` -> `char X[N] = {b0, b1, ..., 0};` with the same bytes: cbmc 6.11 aborts on a
    string-literal initialiser of a static member array (symex type mismatch); a brace list is accepted.
    Only \\xHH escapes (greedy, as in C) and plain characters without a backslash are understood."""
    m = re.match(r'^(.*?= )"(.*)";\s*$', line)
    if not m:
        raise RuntimeError("slice anchor lost in %s: initialiser is not one string literal: %r" % (fname, line[:60]))
    body, out, i = m.group(2), [], 0
    while i < len(body):
        c = body[i]
        if c == "\\":
            mm = re.match(r"\\x([0-9a-fA-F]+)", body[i:])
            if not mm or int(mm.group(1), 16) > 0xff:
                raise RuntimeError("slice anchor lost in %s: unsupported escape in initialiser at %d" % (fname, i))
            out.append(int(mm.group(1), 16)); i += len(mm.group(0))
        elif c == '"':
            raise RuntimeError("slice anchor lost in %s: concatenated literals in initialiser" % fname)
        else:
            out.append(ord(c)); i += 1
    out.append(0)
    return m.group(1) + "{" + ", ".join("(char)%d" % b for b in out) + "};"


def _extract_between(text, start_marker, end_marker, fname):
    """verbatim text from the line containing start_marker up to (excluding) the line containing end_marker"""
    if text.count(start_marker) != 1:
        raise RuntimeError("slice anchor lost in %s: %r" % (fname, start_marker))
    i = text.rfind("\n", 0, text.index(start_marker)) + 1
    j = text.find(end_marker, i)
    if j < 0:
        raise RuntimeError("slice anchor lost in %s: %r" % (fname, end_marker))
    j = text.rfind("\n", 0, j) + 1
    return text[i:j]


def _extract_function(text, first_line, fname):
    i = text.find("\n" + first_line + "\n")
    if i < 0 or text.count("\n" + first_line + "\n") != 1:
        raise RuntimeError("slice anchor lost in %s: %r" % (fname, first_line))
    i += 1
    j = text.index("{", i)
    depth, k = 0, j
    in_str = in_chr = in_line = in_block = False
    while k < len(text):
        c = text[k]
        two = text[k:k + 2]
        if in_line:
            if c == "\n":
                in_line = False
        elif in_block:
            if two == "*/":
                in_block = False
                k += 1
        elif in_str:
            if c == "\\":
                k += 1
            elif c == '"':
                in_str = False
        elif in_chr:
            if c == "\\":
                k += 1
            elif c == "'":
                in_chr = False
        elif two == "//":
            in_line = True
        elif two == "/*":
            in_block = True
        elif c == '"':
            in_str = True
        elif c == "'":
            in_chr = True
        elif c == "{":
            depth += 1
        elif c == "}":
            depth -= 1
            if depth == 0:
                return text[i:k + 1] + "\n"
        k += 1
    raise RuntimeError("unbalanced braces slicing %r in %s" % (first_line, fname))


def _slice_server(tree, fired):
    """Server.cpp: class Server::Private (definition), ClientImpl::write/read/suspend/resume, and the
    write-ready branch of Server::Private::run() wrapped VERBATIM into a synthetic member function
    nv_write_ready(ClientImpl&) -- 'continue' keeps its meaning inside do { } while(0).  One
    declaration line is added to the class text for that member.  Everything else is dropped."""
    src = "src/Socket/Server.cpp"
    text = open(os.path.join(tree, src)).read()
    cls = _extract_function(text, "class Server::Private", src).rstrip("\n") + ";\n"
    hook = "  void run();\n"
    if cls.count(hook) != 1:
        raise RuntimeError("slice anchor lost in %s: %r" % (src, hook))
    cls = cls.replace(hook, hook + "  void nv_write_ready(ClientImpl &client); // added by the slicer: carrier of the write-ready branch of run()\n")
    funcs = [_extract_function(text, f, src) for f in (
        "bool Server::Private::ClientImpl::write(const byte *data, usize size, usize *postponed)",
        "bool Server::Private::ClientImpl::read(byte *buffer, usize maxSize, usize &size)",
        "void Server::Private::ClientImpl::suspend()",
        "void Server::Private::ClientImpl::resume()")]
    branch = _extract_between(text, "      if (!client._sendBuffer.isEmpty())", "    else if (pollEvent.flags & Socket::Poll::acceptFlag)", src)
    # the branch ends with its 'continue;' and the closing brace of the else-if block
    k = branch.rfind("      continue;\n")
    if k < 0:
        raise RuntimeError("slice anchor lost in %s: write-ready branch" % src)
    branch = branch[:k + len("      continue;\n")]
    carrier = "void Server::Private::nv_write_ready(ClientImpl &client)\n{\n  do\n  {\n" + branch + "  } while(0);\n}\n"
    prelude = "\n".join("#include <nstd/%s>" % h for h in (
        "Socket/Server.hpp", "Socket/Socket.hpp", "MultiMap.hpp", "PoolList.hpp", "HashSet.hpp", "Time.hpp", "Buffer.hpp",
        "Error.hpp", "Mutex.hpp", "Future.hpp")) + "\nextern \"C\" void nv_cb_onClosed(void* callback);\nextern \"C\" void nv_cb_onWrite(void* callback);\n\n"
    open(os.path.join(tree, "src/Socket/Server.write.slice.cpp"), "w").write(prelude + cls + "\n" + "\n".join(funcs) + "\n" + carrier)
    fired.append({"file": src, "kind": "slice", "pattern": "class Server::Private; ClientImpl::write/read/suspend/resume; write-ready branch of run()",
                  "count": 6, "why": "function slice -> src/Socket/Server.write.slice.cpp (verbatim texts; one member declaration added; rest dropped)"})


def apply(tree):
    fired = _apply_rules(tree)
    _slice_server(tree, fired)
    for (src, out, firsts, prelude, lines) in SLICES:
        text = open(os.path.join(tree, src)).read()
        for l in lines:
            if text.count("\n" + l + "\n") != 1:
                raise RuntimeError("slice anchor lost in %s: %r" % (src, l))
        funcs = [_extract_function(text, f, src) for f in firsts]
        # file-scope static helper functions that the sliced functions call are sliced along
        helpers = []
        for m in re.finditer(r"^(static [^\n;{}]*?\b(\w+)\s*\([^;{}]*\))\s*\n?\{", text, flags=re.M):
            name = m.group(2)
            if any(re.search(r"\b%s\s*\(" % re.escape(name), f) for f in funcs):
                first = text[m.start():text.index("\n", m.start())]
                helpers.append(_extract_function(text, first, src))
        parts = [prelude] + [l + "\n" for l in lines] + helpers + funcs
        open(os.path.join(tree, out), "w").write("\n".join(parts))
        fired.append({"file": src, "kind": "slice", "pattern": "; ".join(firsts), "count": len(firsts),
                      "why": "function slice -> %s (verbatim function texts; the rest of the file is dropped)" % out})
    for (src, out, prelude, prefixes) in PREFIX_SLICES:
        text = open(os.path.join(tree, src)).read().split("\n")
        taken = []
        for pre in prefixes:
            hits = [l for l in text if l.startswith(pre)]
            if len(hits) != 1 or not hits[0].rstrip().endswith(";"):
                raise RuntimeError("slice anchor lost in %s: %r" % (src, pre))
            taken.append(_respell_string_initialiser(hits[0], src))
        open(os.path.join(tree, out), "w").write(prelude + "\n".join(taken) + "\n")
        fired.append({"file": src, "kind": "slice", "pattern": "; ".join(prefixes), "count": len(prefixes),
                      "why": "definition slice -> %s (one-line definitions; the string-literal initialiser is re-spelled as a brace list of the same bytes; the rest of the file is dropped)" % out})
    return fired


def _apply_rules(tree):
    fired = []
    for (f, kind, pat, rep, count, why) in RULES + (OPTIONAL_RULES if os.environ.get("NV_ARRAY") else []):
        p = os.path.join(tree, f)
        s = open(p).read()
        if kind == "literal":
            n = s.count(pat)
            s2 = s.replace(pat, rep)
        else:
            s2, n = re.subn(pat, rep, s, flags=re.M | re.S)
        if n != count:
            raise RuntimeError("compat rule on %s expected %d matches, found %d: %r" % (f, count, n, pat[:60]))
        open(p, "w").write(s2)
        fired.append({"file": f, "kind": kind, "pattern": pat[:100], "count": n, "why": why})
    return fired
