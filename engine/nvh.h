/* Harness support: the same harness source is compiled by goto-cc (inputs nondeterministic,
 * contracts enforced by DFCC) and by g++ (inputs read from a replay file, predicates
 * evaluated natively against the unmodified /repo code). */
#pragma once
#ifdef NV_NATIVE
#include <stdio.h>
#include <stdlib.h>
#include <string.h>
extern "C" unsigned long nv_in(const char* name);
extern "C" void nv_reject(const char* what);
extern "C" void nv_post(const char* tag, int ok);
#define NV_INPUT(T, name) T name = (T)nv_in(#name)
#define NV_INPUT_ARR(T, name, N) T name[N]; for(unsigned nv_i_ = 0; nv_i_ < (N); ++nv_i_) { char nv_b_[64]; snprintf(nv_b_, sizeof(nv_b_), "%s[%u]", #name, nv_i_); name[nv_i_] = (T)nv_in(nv_b_); }
#define NV_ASSUME(c) do { if(!(c)) nv_reject(#c); } while(0)
#define NV_PRE(c) do { if(!(c)) nv_reject("precondition " #c); } while(0)
#define NV_POST(tag, c) nv_post(tag, (c) ? 1 : 0)
#define NV_REACH(tag) do { } while(0)
#define NV_CHECK(c, tag) nv_post(tag, (c) ? 1 : 0)
#define NV_SAME_OBJECT(a, b) 1
#define NV_OBJECT_SIZE_IS(p, n) 1
#define NV_OFFSET_IS(p, n) 1
#define NV_OFFSET(p) ((unsigned long)(p))
#define NV_R_OK(p, n) 1
#define NV_W_OK(p, n) 1
#define NV_IS_DYNAMIC(p) 1
#else
extern "C" {
unsigned long nondet_usize();
long nondet_ssize();
long nondet_long();
unsigned char nondet_byte();
char nondet_char();
int nondet_int();
unsigned nondet_uint();
unsigned nondet_uint32();
int nondet_int32();
unsigned long nondet_uint64();
long nondet_int64();
bool nondet_bool();
bool nv_r_ok(const void* p, unsigned long n);
bool nv_w_ok(const void* p, unsigned long n);
}
#define NV_INPUT(T, name) T name = nondet_##T()
#define NV_INPUT_ARR(T, name, N) T name[N]; for(unsigned nv_i_ = 0; nv_i_ < (N); ++nv_i_) name[nv_i_] = nondet_##T()
#define NV_ASSUME(c) __CPROVER_assume(c)
#define NV_PRE(c) do { } while(0)
#define NV_POST(tag, c) do { } while(0)
#define NV_REACH(tag) __CPROVER_assert(0, "NV-REACH " tag)
#define NV_CHECK(c, tag) __CPROVER_assert(c, tag)
#define NV_SAME_OBJECT(a, b) __CPROVER_same_object(a, b)
#define NV_OBJECT_SIZE_IS(p, n) (__CPROVER_OBJECT_SIZE(p) == (n))
#define NV_OFFSET_IS(p, n) (__CPROVER_POINTER_OFFSET(p) == (n))
#define NV_OFFSET(p) ((unsigned long)__CPROVER_POINTER_OFFSET(p))
#define NV_R_OK(p, n) nv_r_ok(p, n)
#define NV_W_OK(p, n) nv_w_ok(p, n)
#define NV_IS_DYNAMIC(p) __CPROVER_DYNAMIC_OBJECT(p)
#endif
#ifndef NV_MAXSZ
#define NV_MAXSZ 0x7ffffff0ul
#endif /* goto-cc truncates new[] counts to 32 bits (DESIGN.md P17) */
