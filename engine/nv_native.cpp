// Native side of the replay: inputs come from the replay JSON ("inputs": {"name": value}),
// postcondition predicates are evaluated on the real code, sanitizers watch memory.
#include <stdio.h>
#include <stdlib.h>
#include <string.h>
#include <string>
#include <map>
static std::map<std::string, unsigned long> g_in;
static bool g_loaded = false;
static int g_failed = 0;
static void load()
{
  g_loaded = true;
  const char* path = getenv("NV_REPLAY");
  if(!path) return;
  FILE* f = fopen(path, "r");
  if(!f) return;
  std::string s; char buf[4096]; size_t n;
  while((n = fread(buf, 1, sizeof(buf), f)) > 0) s.append(buf, n);
  fclose(f);
  size_t p = s.find("\"inputs\"");
  if(p == std::string::npos) return;
  p = s.find('{', p);
  size_t e = s.find('}', p);
  std::string body = s.substr(p + 1, e - p - 1);
  size_t i = 0;
  while((i = body.find('"', i)) != std::string::npos)
  {
    size_t j = body.find('"', i + 1);
    std::string name = body.substr(i + 1, j - i - 1);
    size_t c = body.find(':', j);
    long long v = strtoll(body.c_str() + c + 1, 0, 10);
    g_in[name] = (unsigned long)v;
    i = body.find(',', c);
    if(i == std::string::npos) break;
  }
}
extern "C" unsigned long nv_in(const char* name)
{
  if(!g_loaded) load();
  std::map<std::string, unsigned long>::iterator it = g_in.find(name);
  return it == g_in.end() ? 0 : it->second;
}
extern "C" void nv_reject(const char* what)
{
  printf("NV-REJECT input outside harness precondition: %s\n", what);
  exit(3);
}
extern "C" void nv_post(const char* tag, int ok)
{
  printf("NV-POST %s: %s\n", tag, ok ? "holds" : "VIOLATED");
  if(!ok) g_failed++;
}
extern "C" int nv_finish() { fflush(stdout); return g_failed ? 1 : 0; }
