#!/usr/bin/env python3
# rename C++ function identifiers inside a goto binary: ',' -> '|' inside '(...)' parameter lists of identifiers
import re,sys
data=open(sys.argv[1],'rb').read()
# strings are NUL-terminated; split on NUL is unsafe for varints, so do regex on identifier-looking runs
pat=re.compile(rb'[A-Za-z_~#$][A-Za-z_0-9:~#$<>=\-\[\]\*& ]*\((?:this|\$constthis|[A-Za-z_$])[^\x00-\x1f()]*(?:\([^\x00-\x1f()]*\)[^\x00-\x1f()]*)*\)')
n=0
def rep(m):
    global n
    s=m.group(0)
    if b',' in s:
        n+=1
        return s.replace(b',',b'|')
    return s
out=pat.sub(rep,data)
open(sys.argv[2],'wb').write(out)
print("renamed",n,file=sys.stderr)
