/* pointer primitives the C++ front end does not know, callable from the harness predicates */
typedef unsigned long usize;
_Bool nv_r_ok(const void *p, usize n) { return n == 0 || __CPROVER_r_ok(p, n); }
_Bool nv_w_ok(const void *p, usize n) { return n == 0 || __CPROVER_w_ok(p, n); }
