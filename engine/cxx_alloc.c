/* CBMC's C++ allocation built-ins on top of malloc/free, so that DFCC tracks them
 * (DFCC otherwise turns the built-ins into assert(false) stubs, DESIGN.md P16/P17).
 * Allocation failure is not modelled: libnstd's operator new never returns 0. */
typedef unsigned long usize;
void *malloc(usize);
void free(void *);
void *__new_array(usize count, usize size)
{
  void *p = malloc(count * size);
  __CPROVER_assume(p != 0);
  return p;
}
void *__new(usize size)
{
  void *p = malloc(size);
  __CPROVER_assume(p != 0);
  return p;
}
void __delete_array(void *p) { free(p); }
void __delete(void *p) { free(p); }
/* placement new: constructs in the given storage, allocates nothing */
void *__placement_new(usize size, void *p) { (void)size; return p; }
void *__placement_new_array(usize count, usize size, void *p) { (void)count; (void)size; return p; }
