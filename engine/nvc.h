/* Shared by the C contract files: the classes of /repo are seen as INCOMPLETE structs
 * (a complete C struct would be renamed by the goto-cc linker, DESIGN.md P3); fields are
 * reached through layout mirrors whose offsets are asserted against the C++ front end's own
 * layout in every unit (obligation "layout"). */
#ifndef NVC_H
#define NVC_H
typedef unsigned long usize;
typedef long ssize;
typedef unsigned char byte;
typedef unsigned int uint32;
typedef int int32;
typedef unsigned long uint64;
typedef long int64;
#ifndef NV_MAXSZ
#define NV_MAXSZ 0x7ffffff0ul
#endif
#define NV_OFF(p) ((usize)__CPROVER_POINTER_OFFSET(p))

/* ghost state shared with the harness TUs */
extern usize g_woff;    /* watched byte offset (inside whichever object Memory::copy/move writes) */
extern usize g_woff2;   /* second watched byte offset (bytes that move twice) */
extern usize g_cmp_wit; /* witness index produced by the Memory::compare contract */
#define NV_HIT(dest, n) (g_woff >= NV_OFF(dest) && g_woff - NV_OFF(dest) < (n))
#endif
