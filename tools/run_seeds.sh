#!/bin/bash
# run_seeds.sh <PROP> [...]: run the quick check of each property against every seeded change kept under
# /verif/seeded/<PROP>-<n>/ (patch applied to a scratch worktree of /repo given to the engine via NV_REPO;
# the worktree is reset after each run and removed at the end).  Prints DETECTED / MISSED per seed.
WT=/tmp/seedrun.$$
git -C /repo worktree add -q --detach $WT HEAD || exit 2
for P in "$@"; do
  for d in /verif/seeded/$P-*; do
    [ -d "$d" ] || continue
    git -C $WT checkout -q -- . ; git -C $WT apply $d/patch.diff || { echo "$d: patch does not apply"; continue; }
    out=$(cd /verif && NV_REPO=$WT NV_NO_EVIDENCE=1 NV_JOBS=${NV_JOBS:-8} timeout 3000 bin/check $P quick 2>&1)
    rc=$?
    n=$(echo "$out" | grep -c "^VIOLATION")
    und=$(echo "$out" | grep -c "^UNDECIDED")
    if [ $rc = 1 ]; then echo "DETECTED $(basename $d) violations=$n :: $(echo "$out" | grep "failed obligation" | sed 's/.*failed obligation: //' | sort -u | head -3 | tr '\n' ';' | cut -c1-300)"
    else echo "MISSED $(basename $d) rc=$rc undecided=$und :: $(echo "$out" | grep "^UNDECIDED" | head -2 | cut -c1-200)"; fi
  done
done
git -C /repo worktree remove --force $WT
