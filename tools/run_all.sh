#!/bin/bash
# run_all.sh [quick|thorough]: every claimed check in turn (evidence rewritten), summary at the end
TIER=${1:-quick}
cd /verif
for P in $(python3 -c "import json; print(' '.join(c['property_id'] for c in json.load(open('MANIFEST.json'))['checks']))"); do
  s=$(date +%s); bin/check $P $TIER > /tmp/all_$P.log 2>&1; rc=$?
  echo "$P rc=$rc $(( $(date +%s) - s ))s :: $(tail -1 /tmp/all_$P.log | cut -c1-150)"
done
