#!/bin/bash
# confirm_seed.sh <worktree> <change-dir> <dest-id>   -- re-confirm a seeded change ourselves:
# demo passes on the clean worktree, fails with the patch, and the unedited test suite passes with it.
WT=$1; CH=$2; DEST=/verif/seeded/$3
set -u
cd $WT && git checkout -q -- . 
LINK="$(ls $WT/src/*.cpp $WT/src/*/*.cpp)"
build() { g++ -std=c++11 -g -fsanitize=address,undefined -fno-sanitize-recover=undefined -w -I$WT/include $CH/demo.cpp $LINK -pthread -ldl -o $CH/demo.bin 2>$CH/build.log; }
build || { echo "BUILD-FAIL clean"; exit 2; }
( cd $CH && timeout 300 ./demo.bin >/dev/null 2>&1 ); A=$?
git apply $CH/patch.diff || { echo "PATCH-FAIL"; exit 2; }
build || { echo "BUILD-FAIL patched"; git checkout -q -- .; exit 2; }
( cd $CH && timeout 300 ./demo.bin >/dev/null 2>&1 ); B=$?
rm -rf $WT/_build; cmake -G Ninja -B $WT/_build -S $WT >/dev/null 2>&1 && cmake --build $WT/_build >/dev/null 2>&1 && T=$(ctest --test-dir $WT/_build -j8 --timeout 900 2>&1 | grep "tests passed")
git checkout -q -- .; rm -rf $WT/_build $CH/demo.bin
echo "clean_rc=$A patched_rc=$B tests: $T"
if [ "$A" = 0 ] && [ "$B" != 0 ] && echo "$T" | grep -q "100% tests passed"; then
  mkdir -p $DEST; cp $CH/patch.diff $CH/demo.cpp $DEST/; 
  python3 - "$CH/meta.json" "$DEST/meta.json" "$A" "$B" "$T" <<'PY'
import json,sys
m=json.load(open(sys.argv[1]))
m["confirmed_by_us"]={"demo_rc_clean":int(sys.argv[3]),"demo_rc_patched":int(sys.argv[4]),"test_suite_with_patch":sys.argv[5],
  "how":"tools/confirm_seed.sh: demo built with g++ -fsanitize=address,undefined against the scratch worktree, run clean and patched; cmake+ctest of the patched worktree"}
json.dump(m,open(sys.argv[2],"w"),indent=1)
PY
  echo "KEPT $DEST"
else echo "REJECTED"; fi
